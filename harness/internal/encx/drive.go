package encx

import (
	"fmt"
	"go.uber.org/zap"
	"hash/fnv"
	"math"
	"strings"
	"sync"
	"sync/atomic"
	"time"

	"go.uber.org/zap/zapcore"
	"verif/harness/internal/ev"
	"verif/harness/internal/jsonx"
	"verif/harness/internal/par"
)

// Driver runs the encoder-explorer families with a chosen set of oracles.
type Driver struct {
	Run        *ev.Run
	Mode       string // c01 | c02 | c10
	Tree       bool   // evaluate the expected-tree oracle (C02/C10)
	FaultsOnly bool   // only cases containing a failing field (C10)
	Evals      atomic.Int64
	mu         sync.Mutex
	distinct   map[uint64]struct{}
	Samples    []any
	PerFamily  map[string]int64
}

func NewDriver(run *ev.Run, mode string) *Driver {
	return &Driver{Run: run, Mode: mode, distinct: map[uint64]struct{}{}, PerFamily: map[string]int64{}}
}

type local struct {
	d     *Driver
	fam   string
	seen  map[uint64]struct{}
	evals int64
}

func (d *Driver) local(fam string) *local { return &local{d: d, fam: fam, seen: map[uint64]struct{}{}} }

func (l *local) done() {
	l.d.Evals.Add(l.evals)
	l.d.mu.Lock()
	for h := range l.seen {
		if len(l.d.distinct) < 1<<23 {
			l.d.distinct[h] = struct{}{}
		}
	}
	l.d.PerFamily[l.fam] += l.evals
	l.d.mu.Unlock()
}

func (d *Driver) Distinct() int { return len(d.distinct) }

// one evaluates one case.
func (l *local) one(c Cfg, enc zapcore.Encoder, e Ent, p Placement, viaCore bool, keyOf func(kind, msg string) string, desc func() string) {
	l.evals++
	out, pv := Encode(enc, e.Entry(), p, viaCore)
	if pv != nil {
		msg := fmt.Sprintf("the encode/log call did not return normally: %v", pv)
		l.d.Run.Report(keyOf("panic", fmt.Sprint(pv)), desc()+": "+msg, map[string]any{"case": desc()})
		return
	}
	h := fnv.New64a()
	h.Write(out)
	l.seen[h.Sum64()] = struct{}{}
	node, msg := CheckWellFormed(out, c.WantLineEnding())
	if msg != "" {
		l.d.Run.Report(keyOf("malformed", msg), desc()+": "+msg, map[string]any{"case": desc(), "output": string(clip(out))})
		return
	}
	if !l.d.Tree || !c.ValueDefined() {
		return
	}
	if d := CheckTree(node, c, e, p); d != "" {
		l.d.Run.Report(keyOf("value", d), desc()+": decoded line differs from the logged values: "+d+" ; line: "+string(clip(out)), map[string]any{"case": desc(), "output": string(clip(out)), "diff": d})
		return
	}
	if l.d.Mode == "c02" && !placementFault(p) {
		want := jsonx.O()
		ExpectFields(want, p, c.Ref())
		if NoDupKeys(want) {
			m := zapcore.NewMapObjectEncoder()
			for i, seg := range p.With {
				for _, f := range Fields(seg, fmt.Sprintf("w%d_", i)) {
					f.AddTo(m)
				}
			}
			for _, f := range Fields(p.Call, "c_") {
				f.AddTo(m)
			}
			if d := CompareMap(want, m.Fields); d != "" {
				l.d.Run.Report(keyOf("mapenc", d), desc()+": nesting differs from zapcore.MapObjectEncoder: "+d, map[string]any{"case": desc(), "diff": d})
			}
		}
	}
}

func placementFault(p Placement) bool {
	for _, s := range p.With {
		if HasFault(s) {
			return true
		}
	}
	return HasFault(p.Call)
}

func descP(p Placement) string {
	var w []string
	for _, s := range p.With {
		w = append(w, "With"+Describe(s))
	}
	return strings.Join(append(w, "log"+Describe(p.Call)), " ")
}

func msgClass(msg string) string {
	// first words of a message, without the concrete bytes
	if i := strings.IndexAny(msg, ":("); i > 0 {
		msg = msg[:i]
	}
	if len(msg) > 60 {
		msg = msg[:60]
	}
	return msg
}

// F1 runs the structural family: every field list with <= maxNodes nodes,
// under every split into With segments (<=2) and call-site fields.
func (d *Driver) F1(maxNodes int) {
	g := NewGen()
	c := DefaultCfg()
	e := DefaultEnt()
	for n := 0; n <= maxNodes; n++ {
		lists := g.Lists(n)
		shards := 64
		par.For(shards, func(sh int) {
			l := d.local(fmt.Sprintf("F1:size%d", n))
			enc := zapcore.NewJSONEncoder(c.EncoderConfig())
			// second pass over the lists with a failing field: a user-supplied streaming reflection
			// encoder that has written part of its output when it fails
			cp := c
			cp.ReflectEnc = "partial"
			encP := zapcore.NewJSONEncoder(cp.EncoderConfig())
			for li := sh; li < 2*len(lists); li += shards {
				specs := lists[li%len(lists)]
				c, enc := c, enc
				if li >= len(lists) {
					if !HasFault(specs) {
						continue
					}
					c, enc = cp, encP
				}
				sfx := ""
				if c.ReflectEnc != "" {
					sfx = " [NewReflectedEncoder: streaming encoder that fails after partial output]"
				}
				if d.FaultsOnly && !HasFault(specs) {
					continue
				}
				m := len(specs)
				for a := 0; a <= m; a++ {
					for b := a; b <= m; b++ {
						p := Placement{Call: specs[b:]}
						if a > 0 {
							p.With = append(p.With, specs[:a])
						}
						if b > a {
							p.With = append(p.With, specs[a:b])
						}
						if a == 0 && b == 0 && m > 0 {
							// no context at all: also through the plain EncodeEntry path
							l.one(c, enc, e, p, false, d.treeKey(p, sfx), func() string { return descP(p) + sfx })
						}
						l.one(c, enc, e, p, true, d.treeKey(p, sfx), func() string { return descP(p) + sfx })
					}
				}
			}
			l.done()
		})
	}
	d.Samples = append(d.Samples, map[string]any{"family": "F1", "example": descP(Placement{Call: g.Lists(3)[len(g.Lists(3))/2]})})
}

func (d *Driver) treeKey(p Placement, sfx string) func(kind, msg string) string {
	return func(kind, msg string) string {
		return fmt.Sprintf("F1:%s:%s:%s%s", kind, msgClass(msg), descP(p), sfx)
	}
}

// F2 runs every leaf (and every short string as value and as key) in every context class.
func (d *Driver) F2(strLen int) {
	leaves := Leaves(true)
	durs := []string{"seconds", "nanos", "millis", "string"}
	times := []string{"epoch", "epochmillis", "epochnanos", "iso8601", "rfc3339", "rfc3339nano"}
	if d.Mode == "c01" {
		durs = append(durs, "nil", "noop")
		times = append(times, "nil", "noop", "layout")
	}
	type combo struct{ dur, tm string }
	var combos []combo
	for _, du := range durs {
		for _, tm := range times {
			combos = append(combos, combo{du, tm})
		}
	}
	par.For(len(combos), func(i int) {
		l := d.local("F2:leaves")
		c := DefaultCfg()
		c.DurEnc, c.TimeEnc = combos[i].dur, combos[i].tm
		enc := zapcore.NewJSONEncoder(c.EncoderConfig())
		e := DefaultEnt()
		for _, lf := range leaves {
			if d.FaultsOnly && !lf.Fault {
				continue
			}
			// configuration-independent leaves only need one combination
			if i > 0 && !strings.HasPrefix(lf.Name, "duration") && !strings.HasPrefix(lf.Name, "time") {
				continue
			}
			for _, p := range Contexts(lf) {
				p := p
				lf := lf
				key := func(kind, msg string) string {
					return fmt.Sprintf("F2:%s:%s:%s:%s", kind, lf.Name, p.Ctx, msgClass(msg))
				}
				l.one(c, enc, e, p, true, key, func() string {
					return fmt.Sprintf("leaf %s %s (dur=%s time=%s)", lf.Name, p.Ctx, c.DurEnc, c.TimeEnc)
				})
			}
		}
		l.done()
	})
	if d.FaultsOnly {
		return
	}
	strs := Strings(strLen)
	shards := 64
	par.For(shards, func(sh int) {
		l := d.local("F2:strings")
		c := DefaultCfg()
		enc := zapcore.NewJSONEncoder(c.EncoderConfig())
		e := DefaultEnt()
		for si := sh; si < len(strs); si += shards {
			s := strs[si]
			for _, lf := range []*Spec{StringLeaf(s), Keyed(s)} {
				for ci, p := range Contexts(lf) {
					if len(s) > 0 && len([]rune(s)) > 2 && ci > 4 {
						continue // longest strings: first five context classes
					}
					p := p
					isKey := lf.Key != ""
					key := func(kind, msg string) string {
						return fmt.Sprintf("F2:%s:string(key=%v):%q:%s", kind, isKey, s, p.Ctx)
					}
					l.one(c, enc, e, p, true, key, func() string {
						return fmt.Sprintf("string %q as key=%v %s", s, isKey, p.Ctx)
					})
				}
			}
		}
		l.done()
	})
	d.Samples = append(d.Samples, map[string]any{"family": "F2", "example": "string \"\\xc3\\\"\\n\" as key, first in namespace"})
}

// F3 runs the configuration family.
func (d *Driver) F3(levels []zapcore.Level, lineEndings bool) {
	var cfgs []Cfg
	AllConfigs(func(c Cfg) { cfgs = append(cfgs, c) })
	ents := EntVariants(levels)
	p := Placement{With: [][]*Spec{{plain(), NamespaceSpec()}}, Call: []*Spec{StringLeaf(Hostile), leaf("duration", Leaves(true)[0].Make, nil)}}
	// replace the placeholder duration leaf by a real one
	for _, lf := range Leaves(true) {
		if lf.Name == "duration:1500000000" {
			p.Call[1] = lf
		}
	}
	empty := Placement{}
	shards := 128
	par.For(shards, func(sh int) {
		l := d.local("F3:configs")
		for ci := sh; ci < len(cfgs); ci += shards {
			c := cfgs[ci]
			if d.Mode != "c01" && !c.ValueDefined() {
				continue
			}
			variants := []Cfg{c}
			if lineEndings && ci%7 == 0 {
				for _, le := range []string{"\r\n", "|END|", "\n"} {
					v := c
					v.LineEnding = le
					variants = append(variants, v)
				}
				v := c
				v.SkipLineEnding = true
				variants = append(variants, v)
				v.LineEnding = "ignored"
				variants = append(variants, v)
			}
			if ci%5 == 0 {
				for _, du := range []string{"nanos", "millis", "string", "nil", "noop"} {
					if d.Mode != "c01" && (du == "nil" || du == "noop") {
						continue
					}
					v := c
					v.DurEnc = du
					variants = append(variants, v)
				}
			}
			for _, v := range variants {
				v := v
				enc := zapcore.NewJSONEncoder(v.EncoderConfig())
				for _, e := range ents {
					e := e
					for pi, pl := range []Placement{p, empty} {
						pl := pl
						key := func(kind, msg string) string {
							return fmt.Sprintf("F3:%s:%s", kind, cfgClass(v, e, kind, msg))
						}
						l.one(v, enc, e, pl, pi == 0, key, func() string {
							return fmt.Sprintf("config{%s} entry{%s} %s", v, e, descP(pl))
						})
					}
				}
			}
		}
		l.done()
	})
	if d.Mode == "c01" {
		d.hostileKeys(ents)
	}
	d.Samples = append(d.Samples, map[string]any{"family": "F3", "example_config": cfgs[len(cfgs)/3].String(), "example_entry": ents[len(ents)-1].String()})
}

// cfgClass names the configuration feature a failure depends on.
func cfgClass(c Cfg, e Ent, kind, msg string) string {
	switch {
	case kind == "panic" && c.CallerKey != "" && c.CallerEnc == "nil" && e.Caller.Defined:
		return "nil-EncodeCaller-with-CallerKey"
	case kind == "malformed" && c.TimeKey != "" && c.TimeEnc == "layout" && !e.Time.IsZero():
		return "time-layout-output-not-escaped"
	}
	return msgClass(msg) + ":" + c.String()
}

// hostileKeys: keys that are duplicates of each other or need escaping.
func (d *Driver) hostileKeys(ents []Ent) {
	l := d.local("F3:hostile-keys")
	for _, k := range []string{"k", "k\"\\\n\x00\xff", " ", "é😀"} {
		c := DefaultCfg()
		c.LevelKey, c.TimeKey, c.NameKey, c.CallerKey, c.FunctionKey, c.MessageKey, c.StackKey = k, k, k, k, k, k, k
		enc := zapcore.NewJSONEncoder(c.EncoderConfig())
		for _, e := range ents {
			e := e
			p := Placement{Call: []*Spec{Keyed(k), NamespaceSpec(), Keyed(k)}}
			l.one(c, enc, e, p, true, func(kind, msg string) string { return "F3:hostile-keys:" + kind + ":" + msgClass(msg) }, func() string {
				return fmt.Sprintf("all metadata keys = %q entry{%s}", k, e)
			})
		}
	}
	l.done()
}

// Coverage returns the evidence coverage map.
func (d *Driver) Coverage(rule string) map[string]any {
	per := map[string]int64{}
	for k, v := range d.PerFamily {
		per[k] = v
	}
	return map[string]any{
		"evaluations":         d.Evals.Load(),
		"distinct_nontrivial": d.Distinct(),
		"rule":                rule,
		"samples":             d.Samples,
		"exhaustive":          true,
		"per_family":          per,
	}
}

// Levels runs every given level value on the default configuration with each level encoder.
func (d *Driver) Levels(levels []zapcore.Level) {
	l := d.local("levels")
	for _, le := range []string{"lower", "capital", "lowercolor", "capitalcolor"} {
		c := DefaultCfg()
		c.LevelEnc = le
		enc := zapcore.NewJSONEncoder(c.EncoderConfig())
		for _, lv := range levels {
			e := DefaultEnt()
			e.Level = lv
			p := Placement{Call: []*Spec{plain()}}
			l.one(c, enc, e, p, false, func(kind, msg string) string { return fmt.Sprintf("levels:%s:%s:%d", kind, le, lv) }, func() string {
				return fmt.Sprintf("level %d with %s level encoder", lv, le)
			})
		}
	}
	l.done()
}

// CallerPaths enumerates every caller file path of <= maxUnits units over
// {"/", "d", "f.go", "\\"} (absolute, relative, root-level, empty segments,
// trailing separators, no separator at all) x two line numbers.
func CallerPaths(maxUnits int) []zapcore.EntryCaller {
	units := []string{"/", "d", "f.go", "\\"}
	var out []zapcore.EntryCaller
	var rec func(prefix string, n int)
	rec = func(prefix string, n int) {
		for _, line := range []int{0, 7} {
			out = append(out, zapcore.EntryCaller{Defined: true, File: prefix, Line: line, Function: "pkg.Fn"})
		}
		if n == maxUnits {
			return
		}
		for _, u := range units {
			rec(prefix+u, n+1)
		}
	}
	rec("", 0)
	return out
}

// Callers runs every caller path on the default configuration with the short
// and the full caller encoder.
func (d *Driver) Callers(maxUnits int) {
	l := d.local("caller-paths")
	for _, ce := range []string{"short", "full"} {
		c := DefaultCfg()
		c.CallerEnc = ce
		enc := zapcore.NewJSONEncoder(c.EncoderConfig())
		for _, cl := range CallerPaths(maxUnits) {
			e := DefaultEnt()
			e.Caller = cl
			p := Placement{Call: []*Spec{plain()}}
			file, line := cl.File, cl.Line
			l.one(c, enc, e, p, false, func(kind, msg string) string { return fmt.Sprintf("caller-path:%s:%s:%s", kind, ce, pathShape(file)) }, func() string {
				return fmt.Sprintf("caller file %q line %d with the %s caller encoder", file, line, ce)
			})
		}
	}
	l.done()
}

// pathShape classifies a path by its separators only (d = directory or file
// name), e.g. "/d/d".
func pathShape(f string) string {
	s := ""
	in := false
	for i := 0; i < len(f); i++ {
		if f[i] == '/' {
			s += "/"
			in = false
		} else if !in {
			s += "d"
			in = true
		}
	}
	return s
}

// Durations runs a sweep of durations (every whole millisecond of +-maxMs and
// its +-1ns neighbours, plus magnitudes up to the int64 range) as a field and
// as array elements under every built-in duration encoder: arithmetic slips of
// an encoder show only for particular values.
func (d *Driver) Durations(maxMs int) {
	var vals []time.Duration
	for k := -maxMs; k <= maxMs; k++ {
		ms := time.Duration(k) * time.Millisecond
		vals = append(vals, ms, ms-1, ms+1)
	}
	for _, v := range []time.Duration{math.MaxInt64, math.MinInt64, math.MaxInt64 / 1000 * 1000, 90 * time.Minute, -36 * time.Hour, 999999999, 1000000001} {
		vals = append(vals, v)
	}
	encs := []string{"seconds", "millis", "nanos", "string"}
	par.For(len(encs), func(ei int) {
		l := d.local("durations")
		c := DefaultCfg()
		c.DurEnc = encs[ei]
		enc := zapcore.NewJSONEncoder(c.EncoderConfig())
		e := DefaultEnt()
		for i := 0; i+2 < len(vals); i += 3 {
			v0, v1, v2 := vals[i], vals[i+1], vals[i+2]
			run1 := func(name string, mk func(k string) zapcore.Field, want func(k string, r Ref) []jsonx.Member) {
				p := Placement{Call: []*Spec{leaf(name, mk, want)}}
				l.one(c, enc, e, p, false, func(kind, msg string) string { return fmt.Sprintf("durations:%s:%s:%s", kind, encs[ei], name) }, func() string {
					return fmt.Sprintf("%s with the %s duration encoder", name, encs[ei])
				})
			}
			for _, v := range []time.Duration{v0, v1, v2} {
				v := v
				run1(fmt.Sprintf("zap.Duration(%d ns)", int64(v)), func(k string) zapcore.Field { return zap.Duration(k, v) }, func(k string, r Ref) []jsonx.Member { return one(k, DurNode(v, r)) })
			}
			run1(fmt.Sprintf("zap.Durations(%d,%d,%d ns)", int64(v0), int64(v1), int64(v2)), func(k string) zapcore.Field { return zap.Durations(k, []time.Duration{v0, v1, v2}) }, func(k string, r Ref) []jsonx.Member {
				return one(k, jsonx.A(DurNode(v0, r), DurNode(v1, r), DurNode(v2, r)))
			})
		}
		l.done()
	})
}

// Times runs a sweep of instants (seconds around the epoch and a recent one x
// nanosecond parts around the micro- and millisecond marks, in UTC and in a
// fixed zone) as entry time, as a field and as array elements under every
// built-in time encoder.
func (d *Driver) Times() {
	var vals []time.Time
	zone := time.FixedZone("ZZ", -(3*3600 + 1800))
	for _, sec := range []int64{-86400 * 365 * 40, -2, -1, 0, 1, 1700000000, 4102444800} {
		for _, ns := range []int64{0, 1, 999, 1000, 1001, 1500, 499999, 500000, 999999, 1000000, 1000001, 123456789, 999999000, 999999999} {
			vals = append(vals, time.Unix(sec, ns).UTC(), time.Unix(sec, ns).In(zone))
		}
	}
	// the zero Time, instants before year 1 (they are not "zero": the entry and the field carry a time) and the far future
	vals = append(vals, time.Time{}, time.Time{}.Add(-1), time.Time{}.Add(-time.Hour).In(zone), time.Date(0, 6, 1, 12, 0, 0, 5, time.UTC), time.Date(-400, 1, 1, 0, 0, 0, 0, time.UTC),
		time.Date(9999, 12, 31, 23, 59, 59, 999999999, time.UTC), time.Date(2262, 4, 11, 23, 47, 16, 854775807, time.UTC))
	encs := []string{"epoch", "epochmillis", "epochnanos", "iso8601", "rfc3339", "rfc3339nano", "plainlayout", "emptylayout", "nil", "noop"}
	par.For(len(encs), func(ei int) {
		l := d.local("times")
		c := DefaultCfg()
		c.TimeEnc = encs[ei]
		enc := zapcore.NewJSONEncoder(c.EncoderConfig())
		for i, v := range vals {
			v := v
			e := DefaultEnt()
			e.Time = v
			w := vals[(i+7)%len(vals)]
			p := Placement{Call: []*Spec{
				leaf("zap.Time", func(k string) zapcore.Field { return zap.Time(k, v) }, func(k string, r Ref) []jsonx.Member { return one(k, TimeNode(v, r)) }),
				leaf("zap.Times", func(k string) zapcore.Field { return zap.Times(k, []time.Time{v, w}) }, func(k string, r Ref) []jsonx.Member {
					return one(k, jsonx.A(TimeNode(v, r), TimeNode(w, r)))
				}),
			}}
			l.one(c, enc, e, p, i%2 == 0, func(kind, msg string) string { return fmt.Sprintf("times:%s:%s:%s", kind, encs[ei], msgClass(msg)) }, func() string {
				return fmt.Sprintf("time %s (unix %d.%09d) with the %s time encoder", v.Format(time.RFC3339Nano), v.Unix(), v.Nanosecond(), encs[ei])
			})
		}
		l.done()
	})
}

// Numbers runs a sweep of floats (small integers, powers of ten across the
// range where the shortest formatting switches to exponents, values with long
// fractions, subnormals, the float32 counterparts) and of integers near the
// width boundaries as fields and as array elements.
func (d *Driver) Numbers() {
	var fs []float64
	for i := -20; i <= 20; i++ {
		fs = append(fs, float64(i), float64(i)+0.5, float64(i)/3)
	}
	for e := -30; e <= 30; e++ {
		p := math.Pow(10, float64(e))
		fs = append(fs, p, -p, 3*p, p*(1+1e-15))
	}
	fs = append(fs, 0.1+0.2, 1<<24, 1<<24+1, 1<<53, 1<<53+2, math.MaxFloat64, math.SmallestNonzeroFloat64, math.MaxFloat32, math.SmallestNonzeroFloat32, math.Copysign(0, -1))
	l := d.local("numbers")
	c := DefaultCfg()
	enc := zapcore.NewJSONEncoder(c.EncoderConfig())
	e := DefaultEnt()
	for i := 0; i+1 < len(fs); i += 2 {
		a, b := fs[i], fs[i+1]
		a32, b32 := float32(a), float32(b)
		p := Placement{Call: []*Spec{
			leaf("float64", func(k string) zapcore.Field { return zap.Float64(k, a) }, func(k string, r Ref) []jsonx.Member { return one(k, F64(a)) }),
			leaf("float64s", func(k string) zapcore.Field { return zap.Float64s(k, []float64{a, b}) }, func(k string, r Ref) []jsonx.Member { return one(k, jsonx.A(F64(a), F64(b))) }),
			leaf("float32", func(k string) zapcore.Field { return zap.Float32(k, b32) }, func(k string, r Ref) []jsonx.Member { return one(k, F32(b32)) }),
			leaf("float32s", func(k string) zapcore.Field { return zap.Float32s(k, []float32{a32, b32}) }, func(k string, r Ref) []jsonx.Member { return one(k, jsonx.A(F32(a32), F32(b32))) }),
		}}
		l.one(c, enc, e, p, i%4 == 0, func(kind, msg string) string { return fmt.Sprintf("numbers:%s:float:%s", kind, msgClass(msg)) }, func() string {
			return fmt.Sprintf("floats %v and %v (as float64, float32, and in arrays)", a, b)
		})
	}
	// integers: every power of two +-1 in every width, through the typed constructors and their slices
	for sh := 0; sh < 64; sh++ {
		for _, dlt := range []int64{-1, 0, 1} {
			u := uint64(1)<<uint(sh) + uint64(dlt)
			i := int64(u)
			p := Placement{Call: []*Spec{
				leaf("int64", func(k string) zapcore.Field { return zap.Int64(k, i) }, func(k string, r Ref) []jsonx.Member { return one(k, I64(i)) }),
				leaf("uint64", func(k string) zapcore.Field { return zap.Uint64(k, u) }, func(k string, r Ref) []jsonx.Member { return one(k, U64(u)) }),
				leaf("int32", func(k string) zapcore.Field { return zap.Int32(k, int32(i)) }, func(k string, r Ref) []jsonx.Member { return one(k, I64(int64(int32(i)))) }),
				leaf("uint32", func(k string) zapcore.Field { return zap.Uint32(k, uint32(u)) }, func(k string, r Ref) []jsonx.Member { return one(k, U64(uint64(uint32(u)))) }),
				leaf("int16", func(k string) zapcore.Field { return zap.Int16(k, int16(i)) }, func(k string, r Ref) []jsonx.Member { return one(k, I64(int64(int16(i)))) }),
				leaf("uint16", func(k string) zapcore.Field { return zap.Uint16(k, uint16(u)) }, func(k string, r Ref) []jsonx.Member { return one(k, U64(uint64(uint16(u)))) }),
				leaf("int8", func(k string) zapcore.Field { return zap.Int8(k, int8(i)) }, func(k string, r Ref) []jsonx.Member { return one(k, I64(int64(int8(i)))) }),
				leaf("uint8", func(k string) zapcore.Field { return zap.Uint8(k, uint8(u)) }, func(k string, r Ref) []jsonx.Member { return one(k, U64(uint64(uint8(u)))) }),
				leaf("uintptr", func(k string) zapcore.Field { return zap.Uintptr(k, uintptr(u)) }, func(k string, r Ref) []jsonx.Member { return one(k, U64(u)) }),
				leaf("int64s", func(k string) zapcore.Field { return zap.Int64s(k, []int64{i, -i}) }, func(k string, r Ref) []jsonx.Member { return one(k, jsonx.A(I64(i), I64(-i))) }),
				leaf("uint32s", func(k string) zapcore.Field { return zap.Uint32s(k, []uint32{uint32(u), uint32(u >> 1)}) }, func(k string, r Ref) []jsonx.Member {
					return one(k, jsonx.A(U64(uint64(uint32(u))), U64(uint64(uint32(u>>1)))))
				}),
				leaf("int8s", func(k string) zapcore.Field { return zap.Int8s(k, []int8{int8(i), int8(i >> 3)}) }, func(k string, r Ref) []jsonx.Member {
					return one(k, jsonx.A(I64(int64(int8(i))), I64(int64(int8(i>>3)))))
				}),
				leaf("uint16s", func(k string) zapcore.Field { return zap.Uint16s(k, []uint16{uint16(u)}) }, func(k string, r Ref) []jsonx.Member { return one(k, jsonx.A(U64(uint64(uint16(u))))) }),
			}}
			l.one(c, enc, e, p, sh%2 == 0, func(kind, msg string) string { return fmt.Sprintf("numbers:%s:int:%s", kind, msgClass(msg)) }, func() string {
				return fmt.Sprintf("integers around 2^%d (%d / %d) in every width", sh, i, u)
			})
		}
	}
	l.done()
}

// swallowArr is a user array marshaler that carries on after an element that
// cannot be encoded (it ignores AppendReflected's error).
type swallowArr struct{}

func (swallowArr) MarshalLogArray(e zapcore.ArrayEncoder) error {
	_ = e.AppendReflected([]int{1})
	_ = e.AppendReflected(make(chan int))
	_ = e.AppendReflected(map[string]int{"z": 2})
	_ = e.AppendReflected(make(chan int))
	return nil
}

// ReflectSeqs runs every sequence of <= maxLen fields over an alphabet of
// reflected values that encode, reflected values that cannot be encoded, and a
// plain field, under every split into With segments and call-site fields, once
// inside an object too, with zap's default reflection encoder and with a
// user-supplied streaming one. Successive reflected values share the encoder's
// reflection scratch state, which no single-value case exercises.
func (d *Driver) ReflectSeqs(maxLen int) {
	lists, alpha := ReflectSeqLists(maxLen)
	d.reflectSeqs(lists, alpha)
}

// ReflectSeqLists returns every non-empty sequence of <= maxLen fields over the
// reflected-value alphabet, and the alphabet.
func ReflectSeqLists(maxLen int) ([][]*Spec, []*Spec) {
	byName := map[string]*Spec{}
	for _, s := range Leaves(true) {
		byName[s.Name] = s
	}
	var alpha []*Spec
	for _, n := range []string{"reflect:map", "reflect:chan(unencodable)", "reflect:failing-json-marshaler", "reflect:html-struct", "int64:max"} {
		s := byName[n]
		if s == nil {
			ev.ToolError("ReflectSeqs: no leaf named %q", n)
		}
		alpha = append(alpha, s)
	}
	sw := fixed("array:carries-on-after-unencodable-elements", func(k string) zapcore.Field { return zap.Array(k, swallowArr{}) },
		jsonx.A(jsonx.A(jsonx.N("1")), jsonx.O().Add("z", jsonx.N("2"))))
	sw.Fault = true // contains elements that cannot be encoded (MapObjectEncoder stores them regardless: no comparison with it)
	alpha = append(alpha, sw)
	var lists [][]*Spec
	var rec func(cur []*Spec)
	rec = func(cur []*Spec) {
		if len(cur) > 0 {
			lists = append(lists, append([]*Spec(nil), cur...))
		}
		if len(cur) == maxLen {
			return
		}
		for _, a := range alpha {
			rec(append(cur, a))
		}
	}
	rec(nil)
	return lists, alpha
}

func (d *Driver) reflectSeqs(lists [][]*Spec, alpha []*Spec) {
	e := DefaultEnt()
	shards := 32
	par.For(shards, func(sh int) {
		l := d.local("reflect-sequences")
		for _, re := range []string{"", "partial"} {
			c := DefaultCfg()
			c.ReflectEnc = re
			enc := zapcore.NewJSONEncoder(c.EncoderConfig())
			sfx := " [reflection encoder: zap's default]"
			if re != "" {
				sfx = " [NewReflectedEncoder: streaming encoder that fails after partial output]"
			}
			for li := sh; li < len(lists); li += shards {
				specs := lists[li]
				if d.FaultsOnly && !HasFault(specs) {
					continue
				}
				m := len(specs)
				var ps []Placement
				for a := 0; a <= m; a++ {
					for b := a; b <= m; b++ {
						p := Placement{Call: specs[b:]}
						if a > 0 {
							p.With = append(p.With, specs[:a])
						}
						if b > a {
							p.With = append(p.With, specs[a:b])
						}
						ps = append(ps, p)
					}
				}
				ps = append(ps, Placement{Call: []*Spec{{Kind: KObject, Name: "object", Children: specs, ErrAt: -1}}})
				for _, p := range ps {
					p := p
					key := func(kind, msg string) string {
						return fmt.Sprintf("reflect-seq:%s:%s:%s%s", kind, msgClass(msg), descP(p), sfx)
					}
					l.one(c, enc, e, p, true, key, func() string { return descP(p) + sfx })
				}
			}
		}
		l.done()
	})
	d.Samples = append(d.Samples, map[string]any{"family": "reflect-sequences", "lists": len(lists), "alphabet": Describe(alpha)})
}

// LengthSweepStrings returns, for every length 1..maxLen, strings of that length made of a
// plain letter with one special unit (none, quote, newline, invalid byte, two-byte rune,
// U+2028) at the start, the middle and the end. Fast paths and scratch arrays of fixed size
// sit between hand-picked boundary lengths; the sweep visits every length.
func LengthSweepStrings(maxLen int) []string {
	var out []string
	seen := map[string]bool{}
	for L := 1; L <= maxLen; L++ {
		for _, sp := range []string{"", "\"", "\n", "\xff", "é", " "} {
			for _, pos := range []int{0, L / 2, L - len(sp)} {
				if pos < 0 || pos+len(sp) > L {
					continue
				}
				s := strings.Repeat("s", pos) + sp + strings.Repeat("s", L-pos-len(sp))
				if !seen[s] {
					seen[s] = true
					out = append(out, s)
				}
			}
		}
	}
	return out
}

// StringLengths runs every sweep string as a string value, as a byte-string value, as a key,
// as the message and as the logger name, in the call-site fields and in a With context.
func (d *Driver) StringLengths(maxLen int) {
	strs := LengthSweepStrings(maxLen)
	c := DefaultCfg()
	shards := 32
	par.For(shards, func(sh int) {
		l := d.local("string-lengths")
		enc := zapcore.NewJSONEncoder(c.EncoderConfig())
		for si := sh; si < len(strs); si += shards {
			s := strs[si]
			bs := fixed("bytestring", func(k string) zapcore.Field { return zap.ByteString(k, []byte(s)) }, jsonx.S(FixUTF8(s)))
			e := DefaultEnt()
			e.Message, e.Name = s, s
			for pi, p := range []Placement{
				{Call: []*Spec{StringLeaf(s), bs, Keyed(s)}},
				{With: [][]*Spec{{StringLeaf(s), Keyed(s)}}, Call: []*Spec{plain()}},
			} {
				p := p
				l.one(c, enc, e, p, pi == 1 || si%2 == 0, func(kind, msg string) string {
					return fmt.Sprintf("string-length:%s:%s", kind, msgClass(msg))
				}, func() string {
					return fmt.Sprintf("a %d-byte string %q as value, byte-string value, key, message and logger name (%s)", len(s), clipS(s), []string{"call-site fields", "With context"}[pi])
				})
			}
		}
		l.done()
	})
	d.Samples = append(d.Samples, map[string]any{"family": "string-lengths", "strings": len(strs), "max_length": maxLen})
}

// NamespaceDepths: d namespaces left open, for every d up to maxDepth, opened by call-site fields, by
// a With context (one segment, and one namespace per With call - the first two segments here), by an
// object marshaler, and by an object that is an array element; always followed by a plain field, and
// once more followed by a sibling field after the object. Counters, brace runs and scratch constants
// of fixed size sit beyond the depths a hand-written case uses.
func (d *Driver) NamespaceDepths(maxDepth int) {
	c := DefaultCfg()
	e := DefaultEnt()
	e.Stack = "main.f\n\t/a.go:1"
	par.For(maxDepth+1, func(depth int) {
		l := d.local("namespace-depths")
		enc := zapcore.NewJSONEncoder(c.EncoderConfig())
		for pi, p := range NamespaceDepthPlacements(depth) {
			p := p
			l.one(c, enc, e, p, pi != 0, func(kind, msg string) string {
				return fmt.Sprintf("namespace-depth:%s:%s:shape%d", kind, msgClass(msg), pi)
			}, func() string { return fmt.Sprintf("%d namespaces left open, shape %d: %s", depth, pi, clipS(descP(p))) })
		}
		l.done()
	})
	d.Samples = append(d.Samples, map[string]any{"family": "namespace-depths", "max_depth": maxDepth})
}

// NamespaceDepthPlacements: the six shapes of NamespaceDepths for one depth.
func NamespaceDepthPlacements(depth int) []Placement {
	ns := func(n int) []*Spec {
		var out []*Spec
		for i := 0; i < n; i++ {
			out = append(out, NamespaceSpec())
		}
		return out
	}
	obj := &Spec{Kind: KObject, Name: "object", Children: append(ns(depth), plain()), ErrAt: -1}
	half := depth / 2
	return []Placement{
		{Call: append(ns(depth), plain())},
		{With: [][]*Spec{ns(depth)}, Call: []*Spec{plain()}},
		{With: [][]*Spec{append(ns(half), plain()), ns(depth - half)}, Call: []*Spec{plain(), NamespaceSpec(), plain()}},
		{Call: []*Spec{obj, plain()}},
		{With: [][]*Spec{{NamespaceSpec(), obj}}, Call: []*Spec{plain()}},
		{Call: []*Spec{{Kind: KArray, Name: "array", ErrAt: -1, Elems: []*Elem{ElemInt(), {Name: "object", IsObj: true, Children: append(ns(depth), plain()), ErrAt: -1}, ElemInt()}}, plain()}},
	}
}
