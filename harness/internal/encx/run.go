package encx

import (
	"bytes"
	"encoding/json"
	"fmt"
	"unicode/utf8"

	"go.uber.org/zap/zapcore"
	"verif/harness/internal/jsonx"
)

type bufSink struct{ b []byte }

func (s *bufSink) Write(p []byte) (int, error) { s.b = append(s.b, p...); return len(p), nil }
func (s *bufSink) Sync() error                 { return nil }

type allLevels struct{}

func (allLevels) Enabled(zapcore.Level) bool { return true }

// Encode runs one placement through the real encoder. viaCore uses
// zapcore.NewCore(...).With(...).Write(...) (bytes reaching the WriteSyncer);
// otherwise Encoder.Clone + Field.AddTo + EncodeEntry (bytes returned).
func Encode(enc zapcore.Encoder, ent zapcore.Entry, p Placement, viaCore bool) (out []byte, panicked any) {
	defer func() {
		if r := recover(); r != nil {
			panicked = r
		}
	}()
	call := Fields(p.Call, "c_")
	if viaCore {
		s := &bufSink{}
		core := zapcore.NewCore(enc, s, allLevels{})
		for i, seg := range p.With {
			core = core.With(Fields(seg, fmt.Sprintf("w%d_", i)))
		}
		if err := core.Write(ent, call); err != nil {
			return nil, fmt.Sprintf("core.Write returned %v", err)
		}
		// the same entry once more through the same derived core: a logger is
		// used more than once, and what it emits must not depend on its own
		// earlier use (the bytes of the second line are what is checked)
		first := append([]byte(nil), s.b...)
		s.b = s.b[:0]
		// in between, an entry of the other kind through the same core: without call-site
		// fields if this one has some, with one plain field if it has none
		other := []zapcore.Field(nil)
		if len(call) == 0 {
			other = []zapcore.Field{{Key: "zz_between", Type: zapcore.Int64Type, Integer: 7}}
		}
		if err := core.Write(ent, other); err != nil {
			return nil, fmt.Sprintf("intermediate core.Write returned %v", err)
		}
		s.b = s.b[:0]
		if err := core.Write(ent, call); err != nil {
			return nil, fmt.Sprintf("second core.Write returned %v", err)
		}
		if !bytes.Equal(first, s.b) {
			return nil, fmt.Sprintf("the same entry written again through the same core (after an entry %s call-site fields) gives a different line: first %q, then %q", map[bool]string{true: "with", false: "without"}[len(call) == 0], clip(first), clip(s.b))
		}
		return s.b, nil
	}
	e := enc
	for i, seg := range p.With {
		e = e.Clone()
		for _, f := range Fields(seg, fmt.Sprintf("w%d_", i)) {
			f.AddTo(e)
		}
	}
	buf, err := e.EncodeEntry(ent, call)
	if err != nil {
		return nil, fmt.Sprintf("EncodeEntry returned %v", err)
	}
	out = append([]byte(nil), buf.Bytes()...)
	buf.Free()
	return out, nil
}

// ExpectFields builds the expected members of context + call-site fields under root.
func ExpectFields(root *jsonx.Node, p Placement, r Ref) {
	cur := root
	for i, seg := range p.With {
		cur = Expect(cur, seg, fmt.Sprintf("w%d_", i), r)
	}
	Expect(cur, p.Call, "c_", r)
}

// CheckWellFormed is the C01 oracle: exactly one RFC 8259 object, then the
// configured line ending, nothing raw below 0x20 inside the object, valid UTF-8.
func CheckWellFormed(out []byte, lineEnding string) (*jsonx.Node, string) {
	if len(out) == 0 || out[0] != '{' {
		return nil, fmt.Sprintf("output does not start with an object: %q", clip(out))
	}
	node, n, _, err := jsonx.ParseValue(out)
	if err != nil {
		return nil, fmt.Sprintf("not well-formed JSON (%v): %q", err, clip(out))
	}
	if node.Kind != jsonx.Obj {
		return nil, "top-level value is not an object"
	}
	obj, rest := out[:n], out[n:]
	if string(rest) != lineEnding {
		return nil, fmt.Sprintf("after the object come %q, configured line ending is %q: %q", clip(rest), lineEnding, clip(out))
	}
	for i, b := range obj {
		if b < 0x20 {
			return nil, fmt.Sprintf("raw control byte 0x%02x at offset %d inside the object: %q", b, i, clip(out))
		}
	}
	if !utf8.Valid(obj) {
		return nil, fmt.Sprintf("object is not valid UTF-8: %q", clip(out))
	}
	if !json.Valid(obj) {
		return nil, fmt.Sprintf("encoding/json rejects the object: %q", clip(out))
	}
	return node, ""
}

// MaxAlts returns the largest number of alternative encodings any field of the
// placement admits.
func MaxAlts(p Placement) int {
	n := 0
	var walk func(specs []*Spec)
	walk = func(specs []*Spec) {
		for _, s := range specs {
			if s.Alts > n {
				n = s.Alts
			}
			walk(s.Children)
		}
	}
	for _, seg := range p.With {
		walk(seg)
	}
	walk(p.Call)
	return n
}

// DiffFields compares a decoded field object with the expectation for the
// placement, trying each acceptable alternative encoding.
func DiffFields(got *jsonx.Node, p Placement, r Ref) string {
	first := ""
	for alt := 0; alt <= MaxAlts(p); alt++ {
		r.Alt = alt
		want := jsonx.O()
		ExpectFields(want, p, r)
		d := jsonx.Diff(got, want, CmpNum)
		if d == "" {
			return ""
		}
		if alt == 0 {
			first = d
		}
	}
	return first
}

// CheckTree is the C02 oracle on an already parsed line.
func CheckTree(got *jsonx.Node, c Cfg, e Ent, p Placement) string {
	first := ""
	for alt := 0; alt <= MaxAlts(p); alt++ {
		r := c.Ref()
		r.Alt = alt
		d := checkTreeAlt(got, c, e, p, r)
		if d == "" {
			return ""
		}
		if alt == 0 {
			first = d
		}
	}
	return first
}

func checkTreeAlt(got *jsonx.Node, c Cfg, e Ent, p Placement, r Ref) string {
	want := jsonx.O()
	for _, m := range c.ExpectMeta(e) {
		want.Add(m.Key, m.Val)
	}
	ExpectFields(want, p, r)
	g := got
	if e.Stack != "" && c.StackKey != "" {
		// the stack trace is a top-level member (zap emits it last)
		idx := -1
		for i, m := range got.Members {
			if m.Key == c.StackKey {
				idx = i
			}
		}
		if idx < 0 {
			return fmt.Sprintf("stack trace missing under top-level key %q: %s", c.StackKey, clipS(got.String()))
		}
		if got.Members[idx].Val.Kind != jsonx.Str || got.Members[idx].Val.Text != FixUTF8(e.Stack) {
			return fmt.Sprintf("stack trace value differs: got %s", got.Members[idx].Val)
		}
		g = &jsonx.Node{Kind: jsonx.Obj}
		g.Members = append(g.Members, got.Members[:idx]...)
		g.Members = append(g.Members, got.Members[idx+1:]...)
	}
	if d := jsonx.Diff(g, want, CmpNum); d != "" {
		return d
	}
	return ""
}

// MapTree converts what MapObjectEncoder recorded into a tree (unordered
// objects are compared as key sets by CompareMap).
func CompareMap(want *jsonx.Node, m map[string]interface{}) string {
	return cmpMapObj("$", want, m)
}

func cmpMapObj(path string, want *jsonx.Node, m map[string]interface{}) string {
	// the map encoder keeps keys as raw strings; JSON shows invalid bytes as U+FFFD
	norm := make(map[string]interface{}, len(m))
	for k, v := range m {
		norm[FixUTF8(k)] = v
	}
	if len(norm) != len(m) {
		return "" // distinct raw keys that coincide after replacement: not comparable
	}
	m = norm
	if len(want.Members) != len(m) {
		return fmt.Sprintf("%s: JSON object has %d members, MapObjectEncoder recorded %d keys", path, len(want.Members), len(m))
	}
	for _, mem := range want.Members {
		v, ok := m[mem.Key]
		if !ok {
			return fmt.Sprintf("%s: key %q missing in MapObjectEncoder", path, mem.Key)
		}
		if d := cmpMapVal(path+"."+mem.Key, mem.Val, v); d != "" {
			return d
		}
	}
	return ""
}

func cmpMapVal(path string, want *jsonx.Node, v interface{}) string {
	switch want.Kind {
	case jsonx.Obj:
		switch mm := v.(type) {
		case map[string]interface{}:
			return cmpMapObj(path, want, mm)
		default:
			// reflected values are stored as-is by the map encoder
			return ""
		}
	case jsonx.Arr:
		if s, ok := v.([]interface{}); ok {
			if len(s) != len(want.Elems) {
				return fmt.Sprintf("%s: array length %d vs %d in MapObjectEncoder", path, len(want.Elems), len(s))
			}
			for i := range s {
				if d := cmpMapVal(fmt.Sprintf("%s[%d]", path, i), want.Elems[i], s[i]); d != "" {
					return d
				}
			}
		}
	}
	return ""
}

func clip(b []byte) []byte {
	if len(b) > 400 {
		return append(append([]byte{}, b[:400]...), "..."...)
	}
	return b
}

func clipS(s string) string {
	if len(s) > 400 {
		return s[:400] + "..."
	}
	return s
}

// NoDupKeys reports whether no object of the tree has duplicate keys.
func NoDupKeys(n *jsonx.Node) bool {
	switch n.Kind {
	case jsonx.Obj:
		seen := map[string]bool{}
		for _, m := range n.Members {
			if seen[m.Key] {
				return false
			}
			seen[m.Key] = true
			if !NoDupKeys(m.Val) {
				return false
			}
		}
	case jsonx.Arr:
		for _, e := range n.Elems {
			if !NoDupKeys(e) {
				return false
			}
		}
	}
	return true
}

var _ = bytes.Equal
