package encx

import (
	"encoding/json"
	"fmt"
	"io"
	"strings"
	"time"

	"go.uber.org/zap/zapcore"
	"verif/harness/internal/jsonx"
)

// Cfg is one point of the encoder-configuration space.
type Cfg struct {
	LevelKey, LevelEnc   string // lower capital lowercolor capitalcolor nil noop
	TimeKey, TimeEnc     string // epoch epochmillis epochnanos iso8601 rfc3339 rfc3339nano layout plainlayout emptylayout nil noop
	NameKey, NameEnc     string // full nil noop
	CallerKey, CallerEnc string // short full nil noop
	FunctionKey          string
	MessageKey           string
	StackKey             string
	DurEnc               string // seconds nanos millis string nil noop
	LineEnding           string
	SkipLineEnding       bool
	Sep                  string // console separator ("" = default)
	ReflectEnc           string // "" = zap's default reflection encoder; "partial" = a user-supplied streaming encoder (NewReflectedEncoder) that has already written part of its output when it fails
}

// HostileLayout is a time layout containing characters that need escaping.
const HostileLayout = "2006-01-02 \"q\" \\ \t15:04:05 MST"

// PlainLayout is a harmless layout that prints the zone NAME: with a time whose
// location name needs escaping the hostile bytes come from the value, not from
// the layout.
const PlainLayout = time.RFC1123

func noopLevel(zapcore.Level, zapcore.PrimitiveArrayEncoder)        {}
func noopTime(time.Time, zapcore.PrimitiveArrayEncoder)             {}
func noopDur(time.Duration, zapcore.PrimitiveArrayEncoder)          {}
func noopCaller(zapcore.EntryCaller, zapcore.PrimitiveArrayEncoder) {}
func noopName(string, zapcore.PrimitiveArrayEncoder)                {}

func (c Cfg) EncoderConfig() zapcore.EncoderConfig {
	ec := zapcore.EncoderConfig{
		LevelKey: c.LevelKey, TimeKey: c.TimeKey, NameKey: c.NameKey, CallerKey: c.CallerKey,
		FunctionKey: c.FunctionKey, MessageKey: c.MessageKey, StacktraceKey: c.StackKey,
		LineEnding: c.LineEnding, SkipLineEnding: c.SkipLineEnding, ConsoleSeparator: c.Sep,
	}
	switch c.LevelEnc {
	case "lower":
		ec.EncodeLevel = zapcore.LowercaseLevelEncoder
	case "capital":
		ec.EncodeLevel = zapcore.CapitalLevelEncoder
	case "lowercolor":
		ec.EncodeLevel = zapcore.LowercaseColorLevelEncoder
	case "capitalcolor":
		ec.EncodeLevel = zapcore.CapitalColorLevelEncoder
	case "noop":
		ec.EncodeLevel = noopLevel
	}
	switch c.TimeEnc {
	case "epoch":
		ec.EncodeTime = zapcore.EpochTimeEncoder
	case "epochmillis":
		ec.EncodeTime = zapcore.EpochMillisTimeEncoder
	case "epochnanos":
		ec.EncodeTime = zapcore.EpochNanosTimeEncoder
	case "iso8601":
		ec.EncodeTime = zapcore.ISO8601TimeEncoder
	case "rfc3339":
		ec.EncodeTime = zapcore.RFC3339TimeEncoder
	case "rfc3339nano":
		ec.EncodeTime = zapcore.RFC3339NanoTimeEncoder
	case "layout":
		ec.EncodeTime = zapcore.TimeEncoderOfLayout(HostileLayout)
	case "plainlayout":
		ec.EncodeTime = zapcore.TimeEncoderOfLayout(PlainLayout)
	case "emptylayout": // a built-in encoder whose text is empty: the value (column) is still there
		ec.EncodeTime = zapcore.TimeEncoderOfLayout("")
	case "noop":
		ec.EncodeTime = noopTime
	}
	switch c.NameEnc {
	case "full":
		ec.EncodeName = zapcore.FullNameEncoder
	case "noop":
		ec.EncodeName = noopName
	}
	switch c.CallerEnc {
	case "short":
		ec.EncodeCaller = zapcore.ShortCallerEncoder
	case "full":
		ec.EncodeCaller = zapcore.FullCallerEncoder
	case "noop":
		ec.EncodeCaller = noopCaller
	}
	switch c.DurEnc {
	case "seconds":
		ec.EncodeDuration = zapcore.SecondsDurationEncoder
	case "nanos":
		ec.EncodeDuration = zapcore.NanosDurationEncoder
	case "millis":
		ec.EncodeDuration = zapcore.MillisDurationEncoder
	case "string":
		ec.EncodeDuration = zapcore.StringDurationEncoder
	case "noop":
		ec.EncodeDuration = noopDur
	}
	if c.ReflectEnc == "partial" {
		ec.NewReflectedEncoder = func(w io.Writer) zapcore.ReflectedEncoder {
			e := json.NewEncoder(w)
			e.SetEscapeHTML(false)
			return partialEnc{w, e}
		}
	}
	return ec
}

// partialEnc encodes like zap's default reflection encoder; a value it cannot
// encode leaves the beginning of a document in the writer before the error is
// returned, as a streaming encoder does.
type partialEnc struct {
	w io.Writer
	e *json.Encoder
}

func (p partialEnc) Encode(v interface{}) error {
	if _, err := json.Marshal(v); err != nil {
		_, _ = io.WriteString(p.w, `{"partial":[1,"`)
		return err
	}
	return p.e.Encode(v)
}

func (c Cfg) Ref() Ref {
	r := Ref{Dur: c.DurEnc, Time: c.TimeEnc}
	if r.Dur == "nil" || r.Dur == "noop" {
		r.Dur = "nanos"
	}
	return r
}

func (c Cfg) String() string {
	return fmt.Sprintf("reflect=%q level=%q/%s time=%q/%s name=%q/%s caller=%q/%s func=%q msg=%q stack=%q dur=%s le=%q skipLE=%v sep=%q",
		c.ReflectEnc, c.LevelKey, c.LevelEnc, c.TimeKey, c.TimeEnc, c.NameKey, c.NameEnc, c.CallerKey, c.CallerEnc, c.FunctionKey, c.MessageKey, c.StackKey, c.DurEnc, c.LineEnding, c.SkipLineEnding, c.Sep)
}

// WantLineEnding is the documented line ending of the configuration.
func (c Cfg) WantLineEnding() string {
	if c.SkipLineEnding {
		return ""
	}
	if c.LineEnding == "" {
		return "\n"
	}
	return c.LineEnding
}

// ValueDefined reports whether the statement of C02 pins the encoded value of
// every present part: built-in sub-encoders only (a nil level encoder omits
// the part; nil/no-op time, duration, name encoders have fall-backs that are
// exercised for validity only).
func (c Cfg) ValueDefined() bool {
	ok := func(e string) bool { return e != "nil" && e != "noop" }
	if c.LevelKey != "" && c.LevelEnc == "noop" {
		return false
	}
	if c.TimeKey != "" && !ok(c.TimeEnc) {
		return false
	}
	if c.NameKey != "" && c.NameEnc == "noop" {
		return false
	}
	if c.CallerKey != "" && c.CallerEnc == "noop" {
		return false
	}
	if !ok(c.DurEnc) {
		return false
	}
	// distinct keys, so that parts can be told apart
	seen := map[string]bool{}
	for _, k := range []string{c.LevelKey, c.TimeKey, c.NameKey, c.CallerKey, c.FunctionKey, c.MessageKey, c.StackKey} {
		if k != "" && seen[k] {
			return false
		}
		seen[k] = true
	}
	return true
}

// Ent is one entry variant.
type Ent struct {
	Level   zapcore.Level
	Time    time.Time
	Name    string
	Caller  zapcore.EntryCaller
	Stack   string
	Message string
}

func (e Ent) Entry() zapcore.Entry {
	return zapcore.Entry{Level: e.Level, Time: e.Time, LoggerName: e.Name, Caller: e.Caller, Stack: e.Stack, Message: e.Message}
}

func (e Ent) String() string {
	return fmt.Sprintf("level=%d time=%s name=%q caller=%v/%q:%d/%q stack=%q msg=%q", e.Level, e.Time.Format(time.RFC3339Nano), e.Name, e.Caller.Defined, e.Caller.File, e.Caller.Line, e.Caller.Function, e.Stack, e.Message)
}

var hostileZone = time.FixedZone("Z\"\\\tq", 5*3600+1800)

// NormalTime is the non-zero entry time used by the enumeration.
var NormalTime = time.Date(2023, 11, 14, 22, 13, 20, 123456789, hostileZone)

// PreEpochTime is before 1970, on a whole second, in UTC.
var PreEpochTime = time.Date(1960, 1, 2, 3, 4, 5, 0, time.UTC)

var levelNames = map[zapcore.Level]string{-1: "debug", 0: "info", 1: "warn", 2: "error", 3: "dpanic", 4: "panic", 5: "fatal"}
var levelColors = map[zapcore.Level]int{-1: 35, 0: 34, 1: 33, 2: 31, 3: 31, 4: 31, 5: 31}

// LevelText is the reference rendering of a level by a built-in level encoder.
func LevelText(l zapcore.Level, enc string) string {
	name, ok := levelNames[l]
	if !ok {
		name = fmt.Sprintf("Level(%d)", l)
	}
	capital := strings.ToUpper(name)
	col, ok := levelColors[l]
	if !ok {
		col = 31
	}
	switch enc {
	case "capital":
		return capital
	case "lowercolor":
		return fmt.Sprintf("\x1b[%dm%s\x1b[0m", col, name)
	case "capitalcolor":
		return fmt.Sprintf("\x1b[%dm%s\x1b[0m", col, capital)
	}
	return name
}

func trimmedPath(file string, line int) string {
	full := fmt.Sprintf("%s:%d", file, line)
	i := strings.LastIndexByte(file, '/')
	if i < 0 {
		return full
	}
	j := strings.LastIndexByte(file[:i], '/')
	if j < 0 {
		return full
	}
	return fmt.Sprintf("%s:%d", file[j+1:], line)
}

func (c Cfg) timeValue(t time.Time) *jsonx.Node {
	if c.TimeEnc == "layout" {
		return jsonx.S(t.Format(HostileLayout))
	}
	if c.TimeEnc == "plainlayout" {
		return jsonx.S(t.Format(PlainLayout))
	}
	if c.TimeEnc == "emptylayout" {
		return jsonx.S("")
	}
	return TimeNode(t, Ref{Time: c.TimeEnc})
}

// ExpectMeta returns the metadata members of the JSON line in order
// (everything but the stack trace). Only meaningful when ValueDefined.
func (c Cfg) ExpectMeta(e Ent) []jsonx.Member {
	var ms []jsonx.Member
	if c.LevelKey != "" && c.LevelEnc != "nil" {
		ms = append(ms, jsonx.Member{Key: c.LevelKey, Val: jsonx.S(LevelText(e.Level, c.LevelEnc))})
	}
	if c.TimeKey != "" && !e.Time.IsZero() {
		ms = append(ms, jsonx.Member{Key: c.TimeKey, Val: c.timeValue(e.Time)})
	}
	if c.NameKey != "" && e.Name != "" {
		ms = append(ms, jsonx.Member{Key: c.NameKey, Val: jsonx.S(FixUTF8(e.Name))})
	}
	if e.Caller.Defined {
		if c.CallerKey != "" && c.CallerEnc != "nil" {
			v := fmt.Sprintf("%s:%d", e.Caller.File, e.Caller.Line)
			if c.CallerEnc == "short" {
				v = trimmedPath(e.Caller.File, e.Caller.Line)
			}
			ms = append(ms, jsonx.Member{Key: c.CallerKey, Val: jsonx.S(FixUTF8(v))})
		}
		if c.FunctionKey != "" {
			ms = append(ms, jsonx.Member{Key: c.FunctionKey, Val: jsonx.S(FixUTF8(e.Caller.Function))})
		}
	}
	if c.MessageKey != "" {
		ms = append(ms, jsonx.Member{Key: c.MessageKey, Val: jsonx.S(FixUTF8(e.Message))})
	}
	return ms
}

// ConsoleColumns returns the expected metadata columns of a console line (time,
// level, name, caller, function), then the message if its key is set.
func (c Cfg) ConsoleColumns(e Ent) []string {
	var cols []string
	if c.TimeKey != "" && c.TimeEnc != "nil" && c.TimeEnc != "noop" && !e.Time.IsZero() {
		switch c.TimeEnc {
		case "epoch":
			cols = append(cols, fmt.Sprint(float64(e.Time.UnixNano())/float64(time.Second)))
		case "epochmillis":
			cols = append(cols, fmt.Sprint(float64(e.Time.UnixNano())/float64(time.Millisecond)))
		case "epochnanos":
			cols = append(cols, fmt.Sprint(e.Time.UnixNano()))
		case "layout":
			cols = append(cols, e.Time.Format(HostileLayout))
		case "plainlayout":
			cols = append(cols, e.Time.Format(PlainLayout))
		case "emptylayout":
			cols = append(cols, "")
		default:
			cols = append(cols, TimeNode(e.Time, Ref{Time: c.TimeEnc}).Text)
		}
	}
	if c.LevelKey != "" && c.LevelEnc != "nil" && c.LevelEnc != "noop" {
		cols = append(cols, LevelText(e.Level, c.LevelEnc))
	}
	if c.NameKey != "" && e.Name != "" && c.NameEnc != "noop" {
		cols = append(cols, e.Name)
	}
	if e.Caller.Defined {
		if c.CallerKey != "" && c.CallerEnc != "nil" && c.CallerEnc != "noop" {
			if c.CallerEnc == "short" {
				cols = append(cols, trimmedPath(e.Caller.File, e.Caller.Line))
			} else {
				cols = append(cols, fmt.Sprintf("%s:%d", e.Caller.File, e.Caller.Line))
			}
		}
		if c.FunctionKey != "" {
			cols = append(cols, e.Caller.Function)
		}
	}
	if c.MessageKey != "" {
		cols = append(cols, e.Message)
	}
	return cols
}

// AllConfigs enumerates the product of per-part presence x sub-encoder variants.
func AllConfigs(f func(Cfg)) int {
	n := 0
	type ke struct{ k, e string }
	opt := func(key string, encs ...string) []ke {
		out := []ke{{"", encs[0]}}
		for _, e := range encs {
			out = append(out, ke{key, e})
		}
		return out
	}
	levels := opt("level", "lower", "capital", "lowercolor", "capitalcolor", "nil", "noop")
	times := opt("ts", "epoch", "epochmillis", "epochnanos", "iso8601", "rfc3339", "rfc3339nano", "layout", "plainlayout", "emptylayout", "nil", "noop")
	names := opt("logger", "full", "nil", "noop")
	callers := opt("caller", "short", "full", "nil", "noop")
	for _, l := range levels {
		for _, t := range times {
			for _, nm := range names {
				for _, cl := range callers {
					for _, fk := range []string{"", "func"} {
						for _, mk := range []string{"", "msg"} {
							for _, sk := range []string{"", "stacktrace"} {
								c := Cfg{LevelKey: l.k, LevelEnc: l.e, TimeKey: t.k, TimeEnc: t.e, NameKey: nm.k, NameEnc: nm.e,
									CallerKey: cl.k, CallerEnc: cl.e, FunctionKey: fk, MessageKey: mk, StackKey: sk, DurEnc: "seconds"}
								f(c)
								n++
							}
						}
					}
				}
			}
		}
	}
	return n
}

// DefaultCfg has every part present with a built-in encoder.
func DefaultCfg() Cfg {
	return Cfg{LevelKey: "level", LevelEnc: "lower", TimeKey: "ts", TimeEnc: "epoch", NameKey: "logger", NameEnc: "full",
		CallerKey: "caller", CallerEnc: "short", FunctionKey: "func", MessageKey: "msg", StackKey: "stacktrace", DurEnc: "seconds"}
}

// HostileCaller has a file and function that need escaping.
var HostileCaller = zapcore.EntryCaller{Defined: true, File: "/p\"q/di\\r/fi\nle.go", Line: 42, Function: "pkg.\tFn\"x"}

// EntVariants enumerates entry variants; levels selects how many level values.
func EntVariants(levels []zapcore.Level) []Ent {
	var out []Ent
	for _, l := range levels {
		for _, t := range []time.Time{{}, NormalTime} {
			for _, nm := range []string{"", "a.b\"\n\xff"} {
				for _, cl := range []zapcore.EntryCaller{{}, HostileCaller} {
					for _, st := range []string{"", "main.f\n\t/a\"b.go:1\nmain.g\n\t/c.go:2"} {
						out = append(out, Ent{Level: l, Time: t, Name: nm, Caller: cl, Stack: st, Message: "m\"s\\g\n\x01\xfe é"})
					}
				}
			}
		}
		// a pre-epoch instant on a whole second in UTC (negative epoch values, no fraction, zone "UTC") and an empty message
		out = append(out,
			Ent{Level: l, Time: PreEpochTime, Name: "n", Caller: HostileCaller, Message: "pre-epoch"},
			Ent{Level: l, Time: PreEpochTime, Message: ""},
			Ent{Level: l, Time: NormalTime, Name: "n", Caller: HostileCaller, Stack: "s", Message: ""},
			// instants before year 1 are not the zero Time: the entry carries a time
			Ent{Level: l, Time: time.Time{}.Add(-1), Name: "n", Message: "one nanosecond before the zero Time"},
			Ent{Level: l, Time: time.Date(0, 6, 1, 12, 0, 0, 0, time.UTC), Caller: HostileCaller, Message: "year 0"},
			// a caller that is not Defined carries no caller and no function, whatever its other fields hold
			Ent{Level: l, Time: NormalTime, Name: "n", Caller: zapcore.EntryCaller{Defined: false, File: "/left/over.go", Line: 3, Function: "left.Over"}, Message: "undefined caller with left-over strings"},
			// a defined caller without a function name (zapcore.NewEntryCaller gives exactly this; frames without symbols)
			Ent{Level: l, Time: NormalTime, Name: "n", Caller: zapcore.EntryCaller{Defined: true, File: "/src/pkg/file.go", Line: 9}, Message: "caller without function name"},
			Ent{Level: l, Caller: zapcore.EntryCaller{Defined: true, File: "/src/pkg/file.go", Line: 9}, Message: "m"},
			// texts that themselves end with a line ending: the entry's own terminator still follows
			Ent{Level: l, Time: NormalTime, Message: "ends with a newline\n"},
			Ent{Level: l, Time: NormalTime, Message: "ends with CRLF\r\n", Stack: "stack ends with a newline\n"},
			Ent{Level: l, Message: "\n"})
	}
	return out
}

// DefaultEnt is a fully populated entry.
func DefaultEnt() Ent {
	return Ent{Level: zapcore.InfoLevel, Time: NormalTime, Name: "svc.sub", Caller: zapcore.EntryCaller{Defined: true, File: "/src/pkg/dir/file.go", Line: 17, Function: "pkg.Fn"}, Message: "msg"}
}
