#!/bin/bash
# usage: runall.sh [quick|thorough] : every registered check once on /repo, summary in .work/runall.<tier>.txt
T=${1:-quick}; cd "$(dirname "$0")"; mkdir -p .work; out=.work/runall.$T.txt; : > $out
for id in $(jq -r '.checks[].property_id' MANIFEST.json); do s=$(date +%s); ./check $id $T > .work/runall.$id.log 2>&1; rc=$?; e=$(date +%s); echo "$id rc=$rc t=$((e-s))s $(grep -c '^KNOWN-FINDING' .work/runall.$id.log) known" >> $out; done; echo DONE >> $out
