// Package vsched is a controlled scheduler for exhaustively exploring thread
// interleavings of real Go code. It is mounted into the zap module by a build
// overlay (go.uber.org/zap/zzverif/vsched); zap's own sync / atomic / channel
// / go statements are rewritten to call into it (see cmd/instrument).
//
// Exactly one virtual thread runs at a time. Before every synchronisation
// operation ("scheduling point") the running thread publishes the operation it
// is about to perform and the scheduler picks, among the threads whose pending
// operation is enabled, who runs next. Choices are taken from a recorded
// prefix (replay) and default to "keep running the current thread".
//
// The hand-off between threads is done with plain words spun on inside
// //go:norace functions, so that the race detector sees none of it: after a
// grant the shim executes the *real* primitive (which can no longer block), and
// TSan's happens-before relation is exactly that of the program under test.
// For the same reason no maps, appends or other runtime-annotated operations
// are used in thread context: everything lives in fixed arrays.
package vsched

import (
	"fmt"
	"reflect"
	"runtime"
	"sync"
	"time"
	"unsafe"
)

const (
	MaxThreads = 12
	MaxPoints  = 1 << 14
	maxSel     = 4
)

type opKind uint8

const (
	opNone   opKind = iota // always enabled: atomic, pool op, thread start, yield
	opLock                 // exclusive lock on a LockModel
	opRLock                // shared lock on a LockModel
	opOnce                 // Once.Do on an OnceModel
	opWait                 // WaitGroup.Wait on a WGModel
	opRecv                 // receive on a channel
	opSend                 // send on a (buffered) channel
	opSelect               // select over receive cases
	opNever                // blocks forever (nil channel)
	opIdle                 // enabled iff no other thread is enabled (harness: "let everyone else run until they block")
)

// LockModel is the scheduler's view of a Mutex / RWMutex.
type LockModel struct {
	Writer  uint32
	Readers int32
	// WPending counts writers that have called Lock on an RWMutex and not yet
	// acquired it: as documented for sync.RWMutex, a pending writer blocks new
	// readers (which is what makes recursive read-locking a deadlock).
	WPending int32
}

// OnceModel is the scheduler's view of a sync.Once.
type OnceModel struct {
	Running uint32
}

// WGModel is the scheduler's view of a sync.WaitGroup.
type WGModel struct {
	N int64
}

const (
	stFree     = 0
	stParked   = 1
	stRunning  = 2
	stFinished = 3
)

type thread struct {
	status uint32
	grant  uint32
	kind   opKind
	obj    unsafe.Pointer
	sel    [maxSel]unsafe.Pointer
	nsel   int
	selDef bool
	// what an access touches, for independence-based pruning and diagnostics
	label string
}

// Point is one recorded decision with more than one option.
type Point struct {
	N          int16 // number of options
	Choice     int16 // option taken
	CurEnabled bool  // for thread choices: the running thread could have continued
	Env        bool  // environment choice (Choose) rather than thread choice
}

// Verdict kinds for one execution.
const (
	OK = iota
	Deadlock
	Panicked
	Leaked   // main thread returned while other threads are blocked forever
	Diverged // replay prefix did not fit (nondeterminism) - tool error
	Stuck    // watchdog: no progress
	Overflow // too many points/threads - tool error
)

// Result describes one execution.
type Result struct {
	Verdict  int
	Points   []Point // decisions with >1 option, in order
	Steps    int     // all scheduling points passed (transitions)
	PanicVal any
	PanicThr int
	Blocked  string // description of blocked threads on Deadlock/Leaked
	Threads  int
}

var (
	active   uint32 // plain; 1 while an execution is in progress
	threads  [MaxThreads]thread
	nthreads int
	cur      int

	prefix  []int
	points  [MaxPoints]Point
	npoints int
	steps   int

	verdict  int
	panicVal any
	panicThr int
	done     uint32 // plain; set when the execution is over

	joinWG *sync.WaitGroup // real join edge: thread ends happen-before the oracle (one per Run: threads left behind by a deadlocked run keep their own)

	progress uint64 // plain, incremented at every point; read by the watchdog
)

// Active reports whether an execution is running under the scheduler. The shim
// primitives are pass-through when it is not.
//
//go:norace
func Active() bool { return active != 0 }

// Current is the id of the scheduler thread that is running (0 = the body's own thread).
//
//go:norace
func Current() int { return cur }

// tid finds the calling thread. Exactly one thread runs at a time, so it is cur.
//
//go:norace
func tid() int { return cur }

// ---------------------------------------------------------------------------
// hchan peeking (Go 1.23 layout, verified by SelfTest)

type hchanHdr struct {
	qcount   uint
	dataqsiz uint
	buf      unsafe.Pointer
	elemsize uint16
	closed   uint32
}

//go:norace
func chLen(c unsafe.Pointer) int { return int((*hchanHdr)(c).qcount) }

//go:norace
func chCap(c unsafe.Pointer) int { return int((*hchanHdr)(c).dataqsiz) }

//go:norace
func chClosed(c unsafe.Pointer) bool { return (*hchanHdr)(c).closed != 0 }

func chanPtr[T any](c chan T) unsafe.Pointer { return *(*unsafe.Pointer)(unsafe.Pointer(&c)) }

func rchanPtr[T any](c <-chan T) unsafe.Pointer { return *(*unsafe.Pointer)(unsafe.Pointer(&c)) }

// SelfTest validates the channel-header assumptions; it must be called once at
// start-up by every harness that uses the scheduler.
func SelfTest() error {
	c := make(chan int, 3)
	p := chanPtr(c)
	if chLen(p) != 0 || chCap(p) != 3 || chClosed(p) {
		return fmt.Errorf("vsched: hchan layout mismatch (fresh)")
	}
	c <- 1
	c <- 2
	if chLen(p) != 2 {
		return fmt.Errorf("vsched: hchan layout mismatch (len)")
	}
	close(c)
	if !chClosed(p) || chLen(p) != 2 {
		return fmt.Errorf("vsched: hchan layout mismatch (closed)")
	}
	u := make(chan struct{})
	if chCap(chanPtr(u)) != 0 || chClosed(chanPtr(u)) {
		return fmt.Errorf("vsched: hchan layout mismatch (unbuffered)")
	}
	close(u)
	if !chClosed(chanPtr(u)) {
		return fmt.Errorf("vsched: hchan layout mismatch (unbuffered closed)")
	}
	return nil
}

// ---------------------------------------------------------------------------
// enabledness

//go:norace
func recvReady(c unsafe.Pointer) bool {
	if c == nil {
		return false
	}
	return chLen(c) > 0 || chClosed(c)
}

//go:norace
func enabled(t *thread) bool {
	if t.status != stParked {
		return false
	}
	switch t.kind {
	case opNone:
		return true
	case opLock:
		m := (*LockModel)(t.obj)
		return m.Writer == 0 && m.Readers == 0
	case opRLock:
		m := (*LockModel)(t.obj)
		return m.Writer == 0 && m.WPending == 0
	case opOnce:
		return (*OnceModel)(t.obj).Running == 0
	case opWait:
		return (*WGModel)(t.obj).N <= 0
	case opRecv:
		return recvReady(t.obj)
	case opSend:
		if t.obj == nil {
			return false
		}
		return chClosed(t.obj) || chLen(t.obj) < chCap(t.obj)
	case opIdle:
		for i := 0; i < nthreads; i++ {
			u := &threads[i]
			if u != t && u.status == stParked && u.kind != opIdle && enabled(u) {
				return false
			}
		}
		return true
	case opSelect:
		if t.selDef {
			return true
		}
		for i := 0; i < t.nsel; i++ {
			if recvReady(t.sel[i]) {
				return true
			}
		}
		return false
	}
	return false
}

//go:norace
func waitGrant(t *thread) {
	for t.grant == 0 {
		runtime.Gosched()
	}
	t.grant = 0
	t.status = stRunning
}

//go:norace
func finishExec(v int) {
	if verdict == OK {
		verdict = v
	}
	active = 0
	done = 1
}

//go:norace
func parkForever() {
	for {
		time.Sleep(time.Hour)
	}
}

// decide records/replays a decision among n options (n > 1).
//
//go:norace
func decide(n int, curEnabled, env bool) int {
	c := 0
	if npoints < len(prefix) {
		c = prefix[npoints]
		if c < 0 || c >= n {
			finishExec(Diverged)
			parkForever()
		}
	}
	if npoints >= MaxPoints {
		finishExec(Overflow)
		parkForever()
	}
	points[npoints] = Point{N: int16(n), Choice: int16(c), CurEnabled: curEnabled, Env: env}
	npoints++
	return c
}

// schedule is called by the running thread after it has published its pending
// operation (status parked) or finished. It picks the next thread to run and
// returns once the caller itself has been granted (never, if it finished).
//
//go:norace
func schedule(me int) {
	steps++
	progress++
	if steps > MaxSteps {
		// an execution that never quiesces: livelock (e.g. a loop that keeps
		// passing scheduling points without ever blocking or finishing)
		finishExec(Stuck)
		parkForever()
	}
	var en [MaxThreads]int
	n := 0
	meEnabled := false
	if threads[me].status == stParked && enabled(&threads[me]) {
		en[0] = me
		n = 1
		meEnabled = true
	}
	for i := 0; i < nthreads; i++ {
		if i != me && enabled(&threads[i]) {
			en[n] = i
			n++
		}
	}
	if n == 0 {
		// nobody can run
		allDone := true
		for i := 0; i < nthreads; i++ {
			if threads[i].status != stFinished {
				allDone = false
			}
		}
		if allDone {
			finishExec(OK)
		} else if threads[0].status == stFinished {
			finishExec(Leaked)
		} else {
			finishExec(Deadlock)
		}
		if threads[me].status == stFinished {
			return
		}
		parkForever()
	}
	c := 0
	if n > 1 {
		c = decide(n, meEnabled, false)
	}
	next := en[c]
	if next == me {
		threads[me].status = stRunning
		return
	}
	cur = next
	threads[next].grant = 1
	if threads[me].status == stFinished {
		return
	}
	waitGrant(&threads[me])
}

// point publishes a pending operation for the calling thread and yields to the
// scheduler. On return the operation is enabled and the caller is the running
// thread.
//
//go:norace
func point(kind opKind, obj unsafe.Pointer) {
	me := cur
	t := &threads[me]
	t.kind = kind
	t.obj = obj
	t.status = stParked
	schedule(me)
}

// Yield is an explicit scheduling point (always enabled).
//
//go:norace
func Yield() {
	if active == 0 {
		return
	}
	point(opNone, nil)
}

// WaitIdle parks the caller until no other thread can run (harness helper used
// to let background threads finish processing an event deterministically).
//
//go:norace
func WaitIdle() {
	if active == 0 {
		return
	}
	point(opIdle, nil)
}

// Unfinished returns the number of virtual threads that have not terminated
// (including the caller).
//
//go:norace
func Unfinished() int {
	n := 0
	for i := 0; i < nthreads; i++ {
		if threads[i].status != stFinished {
			n++
		}
	}
	return n
}

// Sleep replaces time.Sleep in instrumented code: a scheduling point.
func Sleep(d time.Duration) {
	if active == 0 {
		time.Sleep(d)
		return
	}
	Yield()
}

// Choose asks the environment for one of n answers (0 is the default).
//
//go:norace
func Choose(n int) int {
	if active == 0 || n <= 1 {
		return 0
	}
	steps++
	return decide(n, false, true)
}

// PointLock etc. are called by the shim primitives.

//go:norace
func PointLock(m *LockModel) {
	point(opLock, unsafe.Pointer(m))
	m.Writer = 1
}

// PointWLockRW is Lock on an RWMutex: the call first announces the writer
// (from then on new readers wait), then acquires once readers and writer are gone.
//
//go:norace
func PointWLockRW(m *LockModel) {
	point(opNone, nil)
	m.WPending++
	point(opLock, unsafe.Pointer(m))
	m.WPending--
	m.Writer = 1
}

//go:norace
func PointRLock(m *LockModel) {
	point(opRLock, unsafe.Pointer(m))
	m.Readers++
}

//go:norace
func TryLock(m *LockModel) bool {
	point(opNone, nil)
	if m.Writer == 0 && m.Readers == 0 {
		m.Writer = 1
		return true
	}
	return false
}

//go:norace
func TryRLock(m *LockModel) bool {
	point(opNone, nil)
	if m.Writer == 0 && m.WPending == 0 {
		m.Readers++
		return true
	}
	return false
}

//go:norace
func Unlock(m *LockModel) { m.Writer = 0 }

//go:norace
func RUnlock(m *LockModel) { m.Readers-- }

//go:norace
func PointOnce(o *OnceModel) {
	point(opOnce, unsafe.Pointer(o))
	o.Running = 1
}

//go:norace
func OnceDone(o *OnceModel) { o.Running = 0 }

//go:norace
func WGAdd(w *WGModel, d int) { w.N += int64(d) }

//go:norace
func PointWait(w *WGModel) { point(opWait, unsafe.Pointer(w)) }

//go:norace
func PointAtomic() { point(opNone, nil) }

// ---------------------------------------------------------------------------
// threads

//go:norace
func newThread() int {
	if nthreads >= MaxThreads {
		finishExec(Overflow)
		parkForever()
	}
	id := nthreads
	nthreads++
	t := &threads[id]
	*t = thread{}
	t.status = stParked
	t.kind = opNone
	return id
}

//go:norace
func threadStart(id int) {
	waitGrant(&threads[id])
}

//go:norace
func threadEnd(id int, pv any, panicked bool) {
	if panicked && verdict == OK {
		verdict = Panicked
		panicVal = pv
		panicThr = id
	}
	threads[id].status = stFinished
	if panicked {
		// a panic may leave locks held; end the execution at once
		active = 0
		done = 1
		return
	}
	schedule(id)
}

func threadMain(id int, fn func(), wg *sync.WaitGroup) {
	defer wg.Done()
	threadStart(id)
	panicked := true
	var pv any
	defer func() {
		if panicked {
			pv = recover()
		}
		threadEnd(id, pv, panicked)
	}()
	fn()
	panicked = false
}

// Go starts fn as a new virtual thread (replacement for the go statement).
func Go(fn func()) {
	if !Active() {
		go fn()
		return
	}
	id := newThread()
	joinWG.Add(1)
	go threadMain(id, fn, joinWG)
}

// ---------------------------------------------------------------------------
// channels

// Recv replaces <-c.
func Recv[T any](c <-chan T) T {
	if !Active() {
		return <-c
	}
	p := rchanPtr(c)
	if p == nil {
		point(opNever, nil)
	}
	point(opRecv, p)
	return <-c
}

// Recv2 replaces v, ok := <-c.
func Recv2[T any](c <-chan T) (T, bool) {
	if !Active() {
		v, ok := <-c
		return v, ok
	}
	p := rchanPtr(c)
	if p == nil {
		point(opNever, nil)
	}
	point(opRecv, p)
	v, ok := <-c
	return v, ok
}

// Send replaces c <- v. Only buffered channels are supported under the
// scheduler (zap has no unbuffered data channels); an unbuffered send panics
// with a tool error.
func Send[T any](c chan<- T, v T) {
	if !Active() {
		c <- v
		return
	}
	p := *(*unsafe.Pointer)(unsafe.Pointer(&c))
	if p == nil {
		point(opNever, nil)
	}
	if chCap(p) == 0 && !chClosed(p) {
		panic("vsched: TOOL-ERROR unbuffered channel send is not modelled")
	}
	point(opSend, p)
	c <- v
}

// TrySend is a non-blocking send (select { case c <- v: default: }).
func TrySend[T any](c chan T, v T) bool {
	if !Active() {
		select {
		case c <- v:
			return true
		default:
			return false
		}
	}
	point(opNone, nil)
	select {
	case c <- v:
		return true
	default:
		return false
	}
}

// Close replaces close(c).
func Close[T any](c chan T) {
	if Active() {
		point(opNone, nil)
	}
	close(c)
}

// Case describes one receive case of a heterogeneous select.
type Case struct {
	p    unsafe.Pointer
	recv func() any
	rv   reflect.Value
}

// RecvCase builds a select case receiving (and discarding) from c.
func RecvCase[T any](c <-chan T) Case {
	return Case{p: rchanPtr(c), recv: func() any { <-c; return nil }, rv: reflect.ValueOf(c)}
}

// RecvCaseV builds a select case whose received value is kept (case v := <-c).
func RecvCaseV[T any](c <-chan T) Case {
	return Case{p: rchanPtr(c), recv: func() any { return <-c }, rv: reflect.ValueOf(c)}
}

// As gives the value a select received from c its static type (c only fixes T).
func As[T any](c <-chan T, v any) T {
	t, _ := v.(T)
	return t
}

// SelectV is Select for selects in which some case uses the received value.
func SelectV(hasDefault bool, cases ...Case) (any, int) {
	if !Active() {
		return selectRealV(hasDefault, cases)
	}
	return selectPtrsV(hasDefault, cases)
}

// Select replaces a select statement over receive cases (values discarded).
// Returns the index of the chosen case, -1 for default.
func Select(hasDefault bool, cases ...Case) int {
	if !Active() {
		return selectReal(hasDefault, cases)
	}
	return selectPtrs(hasDefault, cases)
}

func selectReal(hasDefault bool, cases []Case) int {
	_, i := selectRealV(hasDefault, cases)
	return i
}

func selectRealV(hasDefault bool, cases []Case) (any, int) {
	// Pass-through outside the scheduler (only reached when zap's own test
	// suite is run against the instrumented build): a real select.
	sc := make([]reflect.SelectCase, 0, len(cases)+1)
	for _, c := range cases {
		sc = append(sc, reflect.SelectCase{Dir: reflect.SelectRecv, Chan: c.rv})
	}
	if hasDefault {
		sc = append(sc, reflect.SelectCase{Dir: reflect.SelectDefault})
	}
	i, v, ok := reflect.Select(sc)
	if i == len(cases) {
		return nil, -1
	}
	if ok && v.IsValid() && v.CanInterface() {
		return v.Interface(), i
	}
	return nil, i
}

//go:norace
func selectPoint(ptrs *[maxSel]unsafe.Pointer, n int, hasDefault bool, ready *[maxSel]int) int {
	t := &threads[cur]
	for i := 0; i < n; i++ {
		t.sel[i] = ptrs[i]
	}
	t.nsel = n
	t.selDef = hasDefault
	point(opSelect, nil)
	k := 0
	for i := 0; i < n; i++ {
		if recvReady(ptrs[i]) {
			ready[k] = i
			k++
		}
	}
	return k
}

func selectPtrs(hasDefault bool, cases []Case) int {
	_, i := selectPtrsV(hasDefault, cases)
	return i
}

func selectPtrsV(hasDefault bool, cases []Case) (any, int) {
	n := len(cases)
	if n > maxSel {
		panic("vsched: TOOL-ERROR select with too many cases")
	}
	var ptrs [maxSel]unsafe.Pointer
	for i := 0; i < n; i++ {
		ptrs[i] = cases[i].p
	}
	var ready [maxSel]int
	k := selectPoint(&ptrs, n, hasDefault, &ready)
	if k == 0 {
		return nil, -1
	}
	c := 0
	if k > 1 {
		c = Choose(k)
	}
	v := cases[ready[c]].recv()
	return v, ready[c]
}

// ---------------------------------------------------------------------------
// running one execution

// MaxSteps bounds the scheduling points of one execution; exceeding it is
// reported as a livelock (verdict Stuck).
var MaxSteps = 200000

// StuckAfter is how long the driver waits without any scheduling progress
// before declaring the execution stuck (a thread blocked outside the model or
// spinning forever).
var StuckAfter = 60 * time.Second

//go:norace
func resetState(pfx []int) {
	for i := range threads {
		threads[i] = thread{}
	}
	nthreads = 0
	cur = 0
	prefix = pfx
	npoints = 0
	steps = 0
	verdict = OK
	panicVal = nil
	panicThr = -1
	done = 0
	ResetPools()
}

//go:norace
func waitDone() bool {
	last := progress
	lastT := time.Now()
	for i := 0; done == 0; i++ {
		runtime.Gosched()
		if i&0xfff == 0xfff {
			if progress != last {
				last = progress
				lastT = time.Now()
			} else if time.Since(lastT) > StuckAfter {
				return false
			}
		}
	}
	return true
}

//go:norace
func snapshot() Result {
	r := Result{Verdict: verdict, Steps: steps, PanicVal: panicVal, PanicThr: panicThr, Threads: nthreads}
	r.Points = make([]Point, npoints)
	copy(r.Points, points[:npoints])
	if verdict == Deadlock || verdict == Leaked || verdict == Stuck {
		s := ""
		for i := 0; i < nthreads; i++ {
			if threads[i].status != stFinished {
				s += fmt.Sprintf("[thread %d status=%d pending-op=%d] ", i, threads[i].status, threads[i].kind)
			}
		}
		r.Blocked = s
	}
	return r
}

// Run executes body as virtual thread 0 under the scheduler, replaying the
// given choice prefix and taking default choices afterwards. It returns when
// every thread has finished or nobody can run. After a verdict other than OK
// the process state is unreliable (locks may be held, goroutines leaked): the
// caller should report and exit.
func Run(pfx []int, body func()) Result {
	resetState(pfx)
	id := newThread()
	setActive()
	joinWG = new(sync.WaitGroup)
	joinWG.Add(1)
	go threadMain(id, body, joinWG)
	grantFirst(id)
	if !waitDone() {
		setStuck()
		return snapshot()
	}
	r := snapshot()
	if r.Verdict == OK {
		joinWG.Wait() // real happens-before edge from every thread's end to the caller
	}
	return r
}

//go:norace
func setActive() { active = 1 }

//go:norace
func setStuck() { verdict = Stuck; active = 0 }

//go:norace
func grantFirst(id int) {
	cur = id
	threads[id].grant = 1
}
