package vsched

import "sync/atomic"

// PoolEntry is one pooled object. Tok carries the Put -> Get happens-before
// edge of exactly this object (as sync.Pool guarantees), visible to TSan.
type PoolEntry struct {
	Obj any
	Tok atomic.Uint32
}

const poolCap = 32

// PoolState is the controlled free list behind vsync.Pool.
type PoolState struct {
	free       [poolCap]*PoolEntry
	n          int
	registered bool
}

var (
	pools  [1024]*PoolState
	npools int

	// PoolChoices enables environment choices in Pool.Get: 0 = the most
	// recently freed object (default answer), 1.. = older objects, last = a
	// fresh object. When false Get is deterministic LIFO.
	PoolChoices bool

	// PoolGets / PoolReuses count, per execution, the Pool.Get calls and how
	// many of them were answered with a previously freed object.
	PoolGets, PoolReuses int

	// PoolPutHook, when set, is called with every object handed to Put while
	// the scheduler is active (harnesses poison freed buffers with it).
	PoolPutHook func(x any)

	// PoolDoublePut, when set, is called when a pointer that is already in the
	// pool's free list is put again (two later Gets would own the same object).
	PoolDoublePut func(x any)
)

//go:norace
func (p *PoolState) register() {
	if p.registered {
		return
	}
	p.registered = true
	if npools < len(pools) {
		pools[npools] = p
		npools++
	}
}

// ResetPools empties every controlled pool (the effect of a garbage
// collection on sync.Pool). Called at the start of every execution.
//
//go:norace
func ResetPools() {
	for i := 0; i < npools; i++ {
		p := pools[i]
		for j := 0; j < p.n; j++ {
			p.free[j] = nil
		}
		p.n = 0
	}
	PoolGets, PoolReuses = 0, 0
}

// DropPools empties every controlled pool in the middle of an execution (what
// a garbage collection does to sync.Pool) without touching the counters.
//
//go:norace
func DropPools() {
	for i := 0; i < npools; i++ {
		p := pools[i]
		for j := 0; j < p.n; j++ {
			p.free[j] = nil
		}
		p.n = 0
	}
}

// Take passes a scheduling point and removes an entry from the free list
// according to the environment's choice; nil means "allocate a fresh object".
//
//go:norace
func (p *PoolState) Take() *PoolEntry {
	p.register()
	point(opNone, nil)
	PoolGets++
	if p.n == 0 {
		return nil
	}
	c := 0
	if PoolChoices {
		c = Choose(p.n + 1)
	}
	if c == p.n {
		return nil
	}
	PoolReuses++
	idx := p.n - 1 - c
	e := p.free[idx]
	for j := idx; j < p.n-1; j++ {
		p.free[j] = p.free[j+1]
	}
	p.n--
	p.free[p.n] = nil
	return e
}

// PutPoint is the scheduling point before a Put.
//
//go:norace
func (p *PoolState) PutPoint() {
	p.register()
	point(opNone, nil)
}

// Holds reports whether the free list already holds the object (pointer identity).
//
//go:norace
func (p *PoolState) Holds(x any) bool {
	for j := 0; j < p.n; j++ {
		if p.free[j].Obj == x {
			return true
		}
	}
	return false
}

// Give pushes an entry on the free list.
//
//go:norace
func (p *PoolState) Give(e *PoolEntry) {
	if p.n == poolCap {
		return
	}
	p.free[p.n] = e
	p.n++
}
