// Package bridge re-exports the one unexported seam the oracles need: the
// stub of zap's process-exit function (go.uber.org/zap/internal/exit).
package bridge

import "go.uber.org/zap/internal/exit"

// StubbedExit mirrors exit.StubbedExit.
type StubbedExit = exit.StubbedExit

// StubExit replaces os.Exit inside zap by a recorder until Unstub is called.
func StubExit() *StubbedExit { return exit.Stub() }

// WithStub runs f with the exit stubbed.
func WithStub(f func()) *StubbedExit { return exit.WithStub(f) }
