// Package vatomic replaces sync/atomic inside the instrumented zap build: each
// operation passes a scheduling point and then executes the real atomic.
package vatomic

import (
	"sync/atomic"
	"unsafe"

	"go.uber.org/zap/zzverif/vsched"
)

func pt() {
	if vsched.Active() {
		vsched.PointAtomic()
	}
}

// Int32 replaces atomic.Int32.
type Int32 struct{ v atomic.Int32 }

func (x *Int32) Load() int32                    { pt(); return x.v.Load() }
func (x *Int32) Store(n int32)                  { pt(); x.v.Store(n) }
func (x *Int32) Swap(n int32) int32             { pt(); return x.v.Swap(n) }
func (x *Int32) Add(d int32) int32              { pt(); return x.v.Add(d) }
func (x *Int32) CompareAndSwap(o, n int32) bool { pt(); return x.v.CompareAndSwap(o, n) }
func (x *Int32) And(m int32) int32              { pt(); return x.v.And(m) }
func (x *Int32) Or(m int32) int32               { pt(); return x.v.Or(m) }

func LoadInt32(p *int32) int32                      { pt(); return atomic.LoadInt32(p) }
func StoreInt32(p *int32, n int32)                  { pt(); atomic.StoreInt32(p, n) }
func SwapInt32(p *int32, n int32) int32             { pt(); return atomic.SwapInt32(p, n) }
func AddInt32(p *int32, d int32) int32              { pt(); return atomic.AddInt32(p, d) }
func CompareAndSwapInt32(p *int32, o, n int32) bool { pt(); return atomic.CompareAndSwapInt32(p, o, n) }

// Int64 replaces atomic.Int64.
type Int64 struct{ v atomic.Int64 }

func (x *Int64) Load() int64                    { pt(); return x.v.Load() }
func (x *Int64) Store(n int64)                  { pt(); x.v.Store(n) }
func (x *Int64) Swap(n int64) int64             { pt(); return x.v.Swap(n) }
func (x *Int64) Add(d int64) int64              { pt(); return x.v.Add(d) }
func (x *Int64) CompareAndSwap(o, n int64) bool { pt(); return x.v.CompareAndSwap(o, n) }
func (x *Int64) And(m int64) int64              { pt(); return x.v.And(m) }
func (x *Int64) Or(m int64) int64               { pt(); return x.v.Or(m) }

func LoadInt64(p *int64) int64                      { pt(); return atomic.LoadInt64(p) }
func StoreInt64(p *int64, n int64)                  { pt(); atomic.StoreInt64(p, n) }
func SwapInt64(p *int64, n int64) int64             { pt(); return atomic.SwapInt64(p, n) }
func AddInt64(p *int64, d int64) int64              { pt(); return atomic.AddInt64(p, d) }
func CompareAndSwapInt64(p *int64, o, n int64) bool { pt(); return atomic.CompareAndSwapInt64(p, o, n) }

// Uint32 replaces atomic.Uint32.
type Uint32 struct{ v atomic.Uint32 }

func (x *Uint32) Load() uint32                    { pt(); return x.v.Load() }
func (x *Uint32) Store(n uint32)                  { pt(); x.v.Store(n) }
func (x *Uint32) Swap(n uint32) uint32            { pt(); return x.v.Swap(n) }
func (x *Uint32) Add(d uint32) uint32             { pt(); return x.v.Add(d) }
func (x *Uint32) CompareAndSwap(o, n uint32) bool { pt(); return x.v.CompareAndSwap(o, n) }
func (x *Uint32) And(m uint32) uint32             { pt(); return x.v.And(m) }
func (x *Uint32) Or(m uint32) uint32              { pt(); return x.v.Or(m) }

func LoadUint32(p *uint32) uint32           { pt(); return atomic.LoadUint32(p) }
func StoreUint32(p *uint32, n uint32)       { pt(); atomic.StoreUint32(p, n) }
func SwapUint32(p *uint32, n uint32) uint32 { pt(); return atomic.SwapUint32(p, n) }
func AddUint32(p *uint32, d uint32) uint32  { pt(); return atomic.AddUint32(p, d) }
func CompareAndSwapUint32(p *uint32, o, n uint32) bool {
	pt()
	return atomic.CompareAndSwapUint32(p, o, n)
}

// Uint64 replaces atomic.Uint64.
type Uint64 struct{ v atomic.Uint64 }

func (x *Uint64) Load() uint64                    { pt(); return x.v.Load() }
func (x *Uint64) Store(n uint64)                  { pt(); x.v.Store(n) }
func (x *Uint64) Swap(n uint64) uint64            { pt(); return x.v.Swap(n) }
func (x *Uint64) Add(d uint64) uint64             { pt(); return x.v.Add(d) }
func (x *Uint64) CompareAndSwap(o, n uint64) bool { pt(); return x.v.CompareAndSwap(o, n) }
func (x *Uint64) And(m uint64) uint64             { pt(); return x.v.And(m) }
func (x *Uint64) Or(m uint64) uint64              { pt(); return x.v.Or(m) }

func LoadUint64(p *uint64) uint64           { pt(); return atomic.LoadUint64(p) }
func StoreUint64(p *uint64, n uint64)       { pt(); atomic.StoreUint64(p, n) }
func SwapUint64(p *uint64, n uint64) uint64 { pt(); return atomic.SwapUint64(p, n) }
func AddUint64(p *uint64, d uint64) uint64  { pt(); return atomic.AddUint64(p, d) }
func CompareAndSwapUint64(p *uint64, o, n uint64) bool {
	pt()
	return atomic.CompareAndSwapUint64(p, o, n)
}

// Uintptr replaces atomic.Uintptr.
type Uintptr struct{ v atomic.Uintptr }

func (x *Uintptr) Load() uintptr                    { pt(); return x.v.Load() }
func (x *Uintptr) Store(n uintptr)                  { pt(); x.v.Store(n) }
func (x *Uintptr) Swap(n uintptr) uintptr           { pt(); return x.v.Swap(n) }
func (x *Uintptr) Add(d uintptr) uintptr            { pt(); return x.v.Add(d) }
func (x *Uintptr) CompareAndSwap(o, n uintptr) bool { pt(); return x.v.CompareAndSwap(o, n) }
func (x *Uintptr) And(m uintptr) uintptr            { pt(); return x.v.And(m) }
func (x *Uintptr) Or(m uintptr) uintptr             { pt(); return x.v.Or(m) }

func LoadUintptr(p *uintptr) uintptr            { pt(); return atomic.LoadUintptr(p) }
func StoreUintptr(p *uintptr, n uintptr)        { pt(); atomic.StoreUintptr(p, n) }
func SwapUintptr(p *uintptr, n uintptr) uintptr { pt(); return atomic.SwapUintptr(p, n) }
func AddUintptr(p *uintptr, d uintptr) uintptr  { pt(); return atomic.AddUintptr(p, d) }
func CompareAndSwapUintptr(p *uintptr, o, n uintptr) bool {
	pt()
	return atomic.CompareAndSwapUintptr(p, o, n)
}

// Bool replaces atomic.Bool.
type Bool struct{ v atomic.Bool }

func (x *Bool) Load() bool                    { pt(); return x.v.Load() }
func (x *Bool) Store(b bool)                  { pt(); x.v.Store(b) }
func (x *Bool) Swap(b bool) bool              { pt(); return x.v.Swap(b) }
func (x *Bool) CompareAndSwap(o, n bool) bool { pt(); return x.v.CompareAndSwap(o, n) }

// Pointer replaces atomic.Pointer.
type Pointer[T any] struct{ v atomic.Pointer[T] }

func (x *Pointer[T]) Load() *T                    { pt(); return x.v.Load() }
func (x *Pointer[T]) Store(p *T)                  { pt(); x.v.Store(p) }
func (x *Pointer[T]) Swap(p *T) *T                { pt(); return x.v.Swap(p) }
func (x *Pointer[T]) CompareAndSwap(o, n *T) bool { pt(); return x.v.CompareAndSwap(o, n) }

// Value replaces atomic.Value.
type Value struct{ v atomic.Value }

func (x *Value) Load() any                    { pt(); return x.v.Load() }
func (x *Value) Store(v any)                  { pt(); x.v.Store(v) }
func (x *Value) Swap(v any) any               { pt(); return x.v.Swap(v) }
func (x *Value) CompareAndSwap(o, n any) bool { pt(); return x.v.CompareAndSwap(o, n) }

func LoadPointer(p *unsafe.Pointer) unsafe.Pointer     { pt(); return atomic.LoadPointer(p) }
func StorePointer(p *unsafe.Pointer, n unsafe.Pointer) { pt(); atomic.StorePointer(p, n) }
func SwapPointer(p *unsafe.Pointer, n unsafe.Pointer) unsafe.Pointer {
	pt()
	return atomic.SwapPointer(p, n)
}
func CompareAndSwapPointer(p *unsafe.Pointer, o, n unsafe.Pointer) bool {
	pt()
	return atomic.CompareAndSwapPointer(p, o, n)
}
