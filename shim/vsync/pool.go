package vsync

import (
	"reflect"
	"sync"

	"go.uber.org/zap/zzverif/vsched"
)

// Pool replaces sync.Pool. Outside a scheduler run it is the real sync.Pool.
// Inside one it is a deterministic free list owned by the scheduler: Get
// returns the most recently freed object by default (maximal reuse - what a
// single P does), and, when vsched.PoolChoices is set, the explorer may ask
// for any older object or a fresh one instead. Every execution starts with
// empty pools.
type Pool struct {
	New func() any

	real sync.Pool
	st   vsched.PoolState
}

func (p *Pool) Get() any {
	if !vsched.Active() {
		x := p.real.Get()
		if x == nil && p.New != nil {
			x = p.New()
		}
		return x
	}
	e := p.st.Take()
	if e == nil {
		if p.New != nil {
			return p.New()
		}
		return nil
	}
	e.Tok.Load() // acquire: everything before the matching Put is visible
	return e.Obj
}

func (p *Pool) Put(x any) {
	if !vsched.Active() {
		p.real.Put(x)
		return
	}
	if x == nil {
		return
	}
	p.st.PutPoint()
	if h := vsched.PoolDoublePut; h != nil && reflect.ValueOf(x).Kind() == reflect.Ptr && p.st.Holds(x) {
		h(x)
	}
	if h := vsched.PoolPutHook; h != nil {
		h(x)
	}
	e := &vsched.PoolEntry{Obj: x}
	e.Tok.Store(1) // release
	p.st.Give(e)
}
