// Package vsync replaces package sync inside the instrumented zap build. Every
// type is zero-value usable and has the method set of its namesake. Outside a
// scheduler run the types are pass-through wrappers of the real primitives;
// inside one, each potentially blocking or ordering operation first passes a
// scheduling point and then executes the real primitive, which cannot block
// any more because the scheduler only grants enabled operations.
package vsync

import (
	"sync"

	"go.uber.org/zap/zzverif/vsched"
)

// Locker is sync.Locker.
type Locker = sync.Locker

// Mutex replaces sync.Mutex.
type Mutex struct {
	real sync.Mutex
	m    vsched.LockModel
}

func (m *Mutex) Lock() {
	if vsched.Active() {
		vsched.PointLock(&m.m)
	}
	m.real.Lock()
}

func (m *Mutex) TryLock() bool {
	if vsched.Active() {
		if !vsched.TryLock(&m.m) {
			return false
		}
		m.real.Lock()
		return true
	}
	return m.real.TryLock()
}

func (m *Mutex) Unlock() {
	m.real.Unlock()
	if vsched.Active() {
		vsched.Unlock(&m.m)
	}
}

// RWMutex replaces sync.RWMutex.
type RWMutex struct {
	real sync.RWMutex
	m    vsched.LockModel
}

func (m *RWMutex) Lock() {
	if vsched.Active() {
		vsched.PointWLockRW(&m.m)
	}
	m.real.Lock()
}

func (m *RWMutex) Unlock() {
	m.real.Unlock()
	if vsched.Active() {
		vsched.Unlock(&m.m)
	}
}

func (m *RWMutex) RLock() {
	if vsched.Active() {
		vsched.PointRLock(&m.m)
	}
	m.real.RLock()
}

func (m *RWMutex) RUnlock() {
	m.real.RUnlock()
	if vsched.Active() {
		vsched.RUnlock(&m.m)
	}
}

func (m *RWMutex) TryLock() bool {
	if vsched.Active() {
		if !vsched.TryLock(&m.m) {
			return false
		}
		m.real.Lock()
		return true
	}
	return m.real.TryLock()
}

func (m *RWMutex) TryRLock() bool {
	if vsched.Active() {
		if !vsched.TryRLock(&m.m) {
			return false
		}
		m.real.RLock()
		return true
	}
	return m.real.TryRLock()
}

type rlocker RWMutex

func (r *rlocker) Lock()   { (*RWMutex)(r).RLock() }
func (r *rlocker) Unlock() { (*RWMutex)(r).RUnlock() }

func (m *RWMutex) RLocker() Locker { return (*rlocker)(m) }

// Once replaces sync.Once.
type Once struct {
	real sync.Once
	m    vsched.OnceModel
}

func (o *Once) Do(f func()) {
	if !vsched.Active() {
		o.real.Do(f)
		return
	}
	// Enabled only while no other thread is inside Do: the real Once would
	// block the second caller until the first returns.
	vsched.PointOnce(&o.m)
	defer vsched.OnceDone(&o.m)
	o.real.Do(f)
}

// WaitGroup replaces sync.WaitGroup.
type WaitGroup struct {
	real sync.WaitGroup
	m    vsched.WGModel
}

func (w *WaitGroup) Add(d int) {
	if vsched.Active() {
		vsched.WGAdd(&w.m, d)
	}
	w.real.Add(d)
}

func (w *WaitGroup) Done() { w.Add(-1) }

func (w *WaitGroup) Wait() {
	if vsched.Active() {
		vsched.PointWait(&w.m)
	}
	w.real.Wait()
}

// Map replaces sync.Map (pass-through with a scheduling point per operation).
type Map struct {
	real sync.Map
}

func (m *Map) Load(k any) (any, bool) { vsched.Yield(); return m.real.Load(k) }
func (m *Map) Store(k, v any)         { vsched.Yield(); m.real.Store(k, v) }
func (m *Map) LoadOrStore(k, v any) (any, bool) {
	vsched.Yield()
	return m.real.LoadOrStore(k, v)
}
func (m *Map) LoadAndDelete(k any) (any, bool) { vsched.Yield(); return m.real.LoadAndDelete(k) }
func (m *Map) Delete(k any)                    { vsched.Yield(); m.real.Delete(k) }
func (m *Map) Range(f func(k, v any) bool)     { vsched.Yield(); m.real.Range(f) }
