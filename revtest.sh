#!/bin/bash
# usage: revtest.sh <ID> <fix-commit> [tier] : revert one "fix:" commit in a SCRATCH worktree of /repo HEAD and run the check there
# (shows that the check reports the defect again if it ever returns)
ID=$1; C=$2; TIER=${3:-quick}
T=/tmp/revt.$$; rm -rf $T; git -C /repo worktree prune
git -C /repo worktree add -q --detach $T HEAD || exit 2
trap 'git -C /repo worktree remove --force $T' EXIT
git -C $T -c user.email=x -c user.name=x revert --no-commit $C >/dev/null 2>&1 || { echo "REVERT FAILED"; exit 3; }
git -C $T diff --cached --stat | tail -1
cd /verif && VERIF_EVIDENCE_DIR=/tmp/evscratch VERIF_REPO=$T VERIF_WORKTAG=.rev$$ timeout ${MUT_TIMEOUT:-1200} ./check $ID $TIER 2>&1 | grep -v "^KNOWN-FINDING" | cut -c1-400 | head -${LINES_MAX:-12}
echo "rc=${PIPESTATUS[0]}"
