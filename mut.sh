#!/bin/bash
# usage: mut.sh <ID> <file> <python-expr-old> <new>   : apply a textual mutation to /repo, run the check, revert
ID=$1; F=$2; OLD=$3; NEW=$4
cd /repo
python3 - "$F" "$OLD" "$NEW" <<'PY'
import sys
f,old,new=sys.argv[1:4]
s=open(f).read()
if s.count(old)<1:
    print("MUTATION: pattern not found"); sys.exit(3)
open(f,'w').write(s.replace(old,new,1))
PY
[ $? = 3 ] && exit 3
git -C /repo diff --stat | tail -1
cd /verif && timeout ${MUT_TIMEOUT:-900} ./check $ID ${TIER:-quick} 2>&1 | grep -v "^KNOWN-FINDING" | head -${LINES_MAX:-12}
echo "rc=${PIPESTATUS[0]}"
git -C /repo checkout -- .
