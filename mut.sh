#!/bin/bash
# usage: mut.sh <ID> <file> <old> <new> : apply a textual mutation to a SCRATCH COPY of /repo, run the check on it, remove the copy
ID=$1; F=$2; OLD=$3; NEW=$4
T=/tmp/mut.$$; rm -rf $T; cp -r /repo $T; rm -rf $T/.git
python3 - "$T/$F" "$OLD" "$NEW" <<'PY'
import sys
f,old,new=sys.argv[1:4]
s=open(f).read()
if s.count(old)<1:
    print("MUTATION: pattern not found"); sys.exit(3)
open(f,'w').write(s.replace(old,new,1))
PY
[ $? = 3 ] && { rm -rf $T; exit 3; }
cd /verif && VERIF_EVIDENCE_DIR=/tmp/evscratch VERIF_REPO=$T VERIF_WORKTAG=.mut$$ timeout ${MUT_TIMEOUT:-900} ./check $ID ${TIER:-quick} 2>&1 | grep -v "^KNOWN-FINDING" | head -${LINES_MAX:-12}
echo "rc=${PIPESTATUS[0]}"
rm -rf $T
