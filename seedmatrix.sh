#!/bin/bash
# usage: seedmatrix.sh [tier] [parallel] : run every seeded change against the check of its own property
# (scratch copies; /repo and the evidence of the real tree are untouched); result table in seeded/RESULTS.txt
T=${1:-quick}; P=${2:-5}; cd "$(dirname "$0")"; out=seeded/RESULTS.txt; : > $out.tmp
one() { n=$1; T=$2; id=${n%%-*}; [ -f seeded/$n/patch.diff ] || exit 0
  r=$(LINES_MAX=400 MUT_TIMEOUT=${MUT_TIMEOUT:-1500} ./seedtest.sh $id seeded/$n/patch.diff $T 2>&1)
  rc=$(echo "$r" | grep -o 'rc=[0-9]*' | tail -1); key=$(echo "$r" | grep -m1 'key:' | sed 's/^ *key: *//' | cut -c1-140)
  echo "$n $T $rc ${key}"; }
export -f one
ls seeded | grep '^C[0-9]' | xargs -P $P -I{} bash -c "one {} $T" >> $out.tmp
sort $out.tmp > $out; rm -f $out.tmp
grep -vc ' rc=1 ' $out | sed 's/^/not detected: /'
