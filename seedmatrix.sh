#!/bin/bash
# usage: seedmatrix.sh [tier] : run every seeded change against the check of its own property
# (scratch copies; /repo and the evidence of the real tree are untouched); result table in seeded/RESULTS.txt
T=${1:-quick}; cd "$(dirname "$0")"; out=seeded/RESULTS.txt; : > $out.tmp
for d in seeded/*/; do n=$(basename $d); id=${n%%-*}; [ -f $d/patch.diff ] || continue
  r=$(LINES_MAX=400 ./seedtest.sh $id $d/patch.diff $T 2>&1)
  rc=$(echo "$r" | grep -o 'rc=[0-9]*' | tail -1); key=$(echo "$r" | grep -m1 'key:' | sed 's/^ *key: *//' | cut -c1-140)
  echo "$n $T $rc ${key}" | tee -a $out.tmp
done; mv $out.tmp $out
